(* Properties/C05.v — String contents survive escaping and unescaping exactly (model level).
   Only pinned statements: each is closed by `exact` of a lemma proved in Proofs/.
     serializer     Model/SerStr.v   (format_escaped_str over the generated ESCAPE table)
     deserializer   Model/Str.v      (Read::parse_str / parse_str_raw on SliceRead, StrRead, IoRead)
     specification  Spec/Syntax.v    (strpiece, render_piece, str_ok, str_decode, str_text: RFC 8259 section 7)
   A literal is given by its pieces [s]; the deserializer runs on the bytes after the opening quote,
   flat_map render_piece s ++ 34 :: rst, from an arbitrary cursor. *)
From SJ Require Import Base.Bytes Base.Utf8 Gen.Tables Model.Read Model.Str Model.SerStr Spec.Syntax.
From SJ Require Import Proofs.GrammarStr Proofs.StrRefine Proofs.Swar Proofs.Utf8Lemmas
  Proofs.StrEscape Proofs.StrEscapeReject Proofs.StrEscapeUtf8 Proofs.StrEscapeBytes.
Import ListNotations.
Open Scope N_scope.

(* ================= serializer: the escape set and the spellings ================= *)
(* for every byte: escaped iff quote, backslash or U+0000..U+001F; spellings backslash + quote, backslash, b, t, n, f, r; otherwise \u00XX with
   lower-case hex digits; everything else verbatim.  (256-sweep over the generated table: a changed entry breaks it) *)
Theorem C05_escape_shape : forall b, b < 256 ->
  (escape_of b <> 0 <-> (b = 34 \/ b = 92 \/ b < 32)) /\
  byte_out b = Ok (if b =? 34 then [92; 34]
                   else if b =? 92 then [92; 92]
                   else if b <? 32 then
                     if b =? 8 then [92; 98] else if b =? 9 then [92; 116] else if b =? 10 then [92; 110]
                     else if b =? 12 then [92; 102] else if b =? 13 then [92; 114]
                     else [92; 117; 48; 48; hexlow (b / 16); hexlow (b mod 16)]
                   else [b]).
Proof. exact escape_shape. Qed.

(* the bytes written for a string: opening quote, the rendering of one piece per byte, closing quote *)
Theorem C05_escape_concat : forall s, Forall (fun b => b < 256) s ->
  escape_concat s = 34 :: flat_map render_piece (pieces_of s) ++ [34].
Proof. exact escape_concat_spec. Qed.

(* the unreachable!() of CharEscape::from_escape_table is unreachable *)
Theorem C05_escape_no_panic : forall s, Forall (fun b => b < 256) s -> format_escaped_str s = Ok (escape_str s).
Proof. exact format_escaped_str_ok. Qed.

(* the write calls: a quote, non-empty buffers, a quote *)
Theorem C05_escape_buffers : forall s, Forall (fun b => b < 256) s ->
  exists mid, escape_str s = [34] :: mid ++ [[34]] /\ Forall (fun b => b <> []) mid.
Proof. exact escape_str_buffers. Qed.

(* valid UTF-8 in, valid UTF-8 out (String::from_utf8_unchecked in to_string) *)
Theorem C05_escape_valid_utf8 : forall s, utf8_valid s = true -> utf8_valid (escape_concat s) = true.
Proof. exact escape_concat_valid. Qed.

(* ================= round trip ================= *)
(* every Rust string (valid UTF-8) serialises to a literal that deserialises back to the identical string; the result is
   borrowed exactly when nothing was escaped; the cursor ends right behind the closing quote *)
Theorem C05_roundtrip : forall cf s rst off pk d, utf8_valid s = true ->
  parse_str (mkEnv RSlice TEof cf) (mkSt (tl (escape_concat s) ++ rst) off pk d)
  = Ok (s, forallb (fun b => negb (needs_escape b)) s, mkSt rst (off + length (tl (escape_concat s))) false d).
Proof. exact roundtrip_slice. Qed.

Theorem C05_roundtrip_str : forall cf s rst off pk d, utf8_valid s = true ->
  parse_str (mkEnv RStr TEof cf) (mkSt (tl (escape_concat s) ++ rst) off pk d)
  = Ok (s, forallb (fun b => negb (needs_escape b)) s, mkSt rst (off + length (tl (escape_concat s))) false d).
Proof. exact roundtrip_str. Qed.

Theorem C05_roundtrip_reader : forall cf s rst off pk d, utf8_valid s = true ->
  parse_str (mkEnv RIo TEof cf) (mkSt (tl (escape_concat s) ++ rst) off pk d)
  = Ok (s, false, mkSt rst (off + length (tl (escape_concat s))) false d).
Proof. exact roundtrip_io. Qed.

(* ================= deserializer: every literal gets the text RFC 8259 section 7 assigns it ================= *)
(* the generated tables say what the RFC says *)
Theorem C05_table_special_bytes : forall b ctrl,
  is_escape b ctrl = ((b =? 34) || (b =? 92) || (ctrl && (b <? 32)))%N%bool.
Proof. exact is_escape_spec. Qed.
Theorem C05_table_escape_letters : forall c, escape_simple c = if esc_letter c then Some (esc_val c) else None.
Proof. exact escape_simple_spec. Qed.
(* all 2^32 four-byte groups after \u (and beyond: no range hypothesis): either hex case, value, or rejection *)
Theorem C05_hex_groups : forall a b c d,
  decode_four_hex a b c d
  = if hex_byte a && hex_byte b && hex_byte c && hex_byte d then Some (u4_val a b c d) else None.
Proof. exact decode_four_hex_spec_gen. Qed.
Theorem C05_encode_scalar : forall n, is_scalar n = true -> push_wtf8 n = Ok (utf8_encode n).
Proof. exact push_wtf8_scalar. Qed.
Theorem C05_encode_scalar_valid : forall n, is_scalar n = true -> utf8_valid (utf8_encode n) = true.
Proof. exact utf8_encode_valid. Qed.

(* completeness: all escape forms, either hex case, surrogate pairs merged into one scalar *)
Theorem C05_decode : forall cf s b rst off pk d,
  str_ok s = true -> str_text s = Some b ->
  parse_str (mkEnv RSlice TEof cf) (mkSt (flat_map render_piece s ++ 34 :: rst) off pk d)
  = Ok (b, forallb (fun p => match p with PRaw _ => true | _ => false end) s,
        mkSt rst (off + length (flat_map render_piece s) + 1) false d).
Proof. exact parse_str_complete_strong. Qed.

(* a lexically well-formed literal without RFC text (unpaired surrogate, not UTF-8) is rejected *)
Theorem C05_decode_rejects : forall cf s rst off pk d,
  str_ok s = true -> str_text s = None ->
  exists c i, parse_str (mkEnv RSlice TEof cf) (mkSt (flat_map render_piece s ++ 34 :: rst) off pk d) = Err c i.
Proof. exact parse_str_rejects. Qed.

(* both in one statement *)
Theorem C05_decode_decides : forall cf s rst off pk d,
  str_ok s = true ->
  match str_text s with
  | Some b => parse_str (mkEnv RSlice TEof cf) (mkSt (flat_map render_piece s ++ 34 :: rst) off pk d)
              = Ok (b, forallb (fun p => match p with PRaw _ => true | _ => false end) s,
                    mkSt rst (off + length (flat_map render_piece s) + 1) false d)
  | None => exists c i, parse_str (mkEnv RSlice TEof cf) (mkSt (flat_map render_piece s ++ 34 :: rst) off pk d) = Err c i
  end.
Proof. exact parse_str_decides. Qed.

(* soundness: whatever is accepted is a well-formed literal and the result is its text *)
Theorem C05_decode_sound : forall cf s0 b bw s1,
  Forall (fun x => (x < 256)%N) (rest s0) ->
  parse_str (mkEnv RSlice TEof cf) s0 = Ok (b, bw, s1) ->
  exists s, rest s0 = flat_map render_piece s ++ 34 :: rest s1 /\ str_ok s = true /\ str_text s = Some b
         /\ (off s1 = off s0 + length (flat_map render_piece s) + 1)%nat /\ pk s1 = false /\ depth s1 = depth s0
         /\ bw = forallb (fun p => match p with PRaw _ => true | _ => false end) s.
Proof. exact parse_str_sound_strong. Qed.

(* the piece decomposition of a literal is unique: the text RFC 8259 assigns to a literal is well defined *)
Theorem C05_literal_unique : forall s s' rst rst',
  str_ok s = true -> str_ok s' = true ->
  flat_map render_piece s ++ 34 :: rst = flat_map render_piece s' ++ 34 :: rst' ->
  s = s' /\ rst = rst'.
Proof. exact render_unique. Qed.

(* ---- the rejection classes, with the exact error and byte index: [s] is the decodable part before the offence ---- *)
Theorem C05_reject_control : forall cf s b, str_ok s = true -> str_decode s = Some b ->
  forall o pk d c rst, c < 32 ->
  parse_str (mkEnv RSlice TEof cf) (mkSt (flat_map render_piece s ++ c :: rst) o pk d)
  = Err ControlCharacterWhileParsingString (o + length (flat_map render_piece s) + 1).
Proof. exact reject_control. Qed.

Theorem C05_reject_unknown_escape : forall cf s b, str_ok s = true -> str_decode s = Some b ->
  forall o pk d x rst, esc_letter x = false -> x <> 117 ->
  parse_str (mkEnv RSlice TEof cf) (mkSt (flat_map render_piece s ++ 92 :: x :: rst) o pk d)
  = Err InvalidEscape (o + length (flat_map render_piece s) + 2).
Proof. exact reject_unknown_escape. Qed.

Theorem C05_reject_malformed_hex : forall cf s b, str_ok s = true -> str_decode s = Some b ->
  forall o pk d h1 h2 h3 h4 rst, hex4 h1 h2 h3 h4 = false ->
  parse_str (mkEnv RSlice TEof cf) (mkSt (flat_map render_piece s ++ 92 :: 117 :: h1 :: h2 :: h3 :: h4 :: rst) o pk d)
  = Err InvalidEscape (o + length (flat_map render_piece s) + 6).
Proof. exact reject_malformed_hex. Qed.

Theorem C05_reject_lone_low_surrogate : forall cf s b, str_ok s = true -> str_decode s = Some b ->
  forall o pk d h1 h2 h3 h4 rst, hex4 h1 h2 h3 h4 = true -> is_lo_surr (u4_val h1 h2 h3 h4) = true ->
  parse_str (mkEnv RSlice TEof cf) (mkSt (flat_map render_piece s ++ 92 :: 117 :: h1 :: h2 :: h3 :: h4 :: rst) o pk d)
  = Err LoneLeadingSurrogateInHexEscape (o + length (flat_map render_piece s) + 6).
Proof. exact reject_lone_low. Qed.

Theorem C05_reject_high_then_other : forall cf s b, str_ok s = true -> str_decode s = Some b ->
  forall o pk d h1 h2 h3 h4, hex4 h1 h2 h3 h4 = true -> is_hi_surr (u4_val h1 h2 h3 h4) = true ->
  forall x rst, x <> 92 ->
  parse_str (mkEnv RSlice TEof cf) (mkSt (flat_map render_piece s ++ 92 :: 117 :: h1 :: h2 :: h3 :: h4 :: x :: rst) o pk d)
  = Err UnexpectedEndOfHexEscape (o + length (flat_map render_piece s) + 7).
Proof. exact reject_high_then_other. Qed.

Theorem C05_reject_high_then_escape : forall cf s b, str_ok s = true -> str_decode s = Some b ->
  forall o pk d h1 h2 h3 h4, hex4 h1 h2 h3 h4 = true -> is_hi_surr (u4_val h1 h2 h3 h4) = true ->
  forall x rst, x <> 117 ->
  parse_str (mkEnv RSlice TEof cf)
    (mkSt (flat_map render_piece s ++ 92 :: 117 :: h1 :: h2 :: h3 :: h4 :: 92 :: x :: rst) o pk d)
  = Err UnexpectedEndOfHexEscape (o + length (flat_map render_piece s) + 8).
Proof. exact reject_high_then_escape. Qed.

Theorem C05_reject_high_then_nonlow : forall cf s b, str_ok s = true -> str_decode s = Some b ->
  forall o pk d h1 h2 h3 h4, hex4 h1 h2 h3 h4 = true -> is_hi_surr (u4_val h1 h2 h3 h4) = true ->
  forall k1 k2 k3 k4 rst, hex4 k1 k2 k3 k4 = true -> is_lo_surr (u4_val k1 k2 k3 k4) = false ->
  parse_str (mkEnv RSlice TEof cf)
    (mkSt (flat_map render_piece s ++ 92 :: 117 :: h1 :: h2 :: h3 :: h4 :: 92 :: 117 :: k1 :: k2 :: k3 :: k4 :: rst) o pk d)
  = Err LoneLeadingSurrogateInHexEscape (o + length (flat_map render_piece s) + 12).
Proof. exact reject_high_then_nonlow. Qed.

Theorem C05_reject_high_then_malformed : forall cf s b, str_ok s = true -> str_decode s = Some b ->
  forall o pk d h1 h2 h3 h4, hex4 h1 h2 h3 h4 = true -> is_hi_surr (u4_val h1 h2 h3 h4) = true ->
  forall k1 k2 k3 k4 rst, hex4 k1 k2 k3 k4 = false ->
  parse_str (mkEnv RSlice TEof cf)
    (mkSt (flat_map render_piece s ++ 92 :: 117 :: h1 :: h2 :: h3 :: h4 :: 92 :: 117 :: k1 :: k2 :: k3 :: k4 :: rst) o pk d)
  = Err InvalidEscape (o + length (flat_map render_piece s) + 12).
Proof. exact reject_high_then_malformed. Qed.

(* byte input whose decoded contents are not UTF-8 *)
Theorem C05_reject_invalid_utf8 : forall cf s b, str_ok s = true -> str_decode s = Some b ->
  forall o pk d rst, utf8_valid b = false ->
  parse_str (mkEnv RSlice TEof cf) (mkSt (flat_map render_piece s ++ 34 :: rst) o pk d)
  = Err InvalidUnicodeCodePoint (o + length (flat_map render_piece s) + 1).
Proof. exact reject_invalid_utf8. Qed.

(* the input ends inside the literal: end of contents, after a backslash, inside the hex digits *)
Theorem C05_reject_eof : forall cf s b, str_ok s = true -> str_decode s = Some b ->
  forall o pk d,
  parse_str (mkEnv RSlice TEof cf) (mkSt (flat_map render_piece s ++ []) o pk d)
  = Err EofWhileParsingString (o + length (flat_map render_piece s)).
Proof. exact reject_eof. Qed.
Theorem C05_reject_escape_eof : forall cf s b, str_ok s = true -> str_decode s = Some b ->
  forall o pk d,
  parse_str (mkEnv RSlice TEof cf) (mkSt (flat_map render_piece s ++ [92]) o pk d)
  = Err EofWhileParsingString (o + length (flat_map render_piece s) + 1).
Proof. exact reject_escape_eof. Qed.
Theorem C05_reject_hex_eof : forall cf s b, str_ok s = true -> str_decode s = Some b ->
  forall o pk d l, (length l < 4)%nat ->
  parse_str (mkEnv RSlice TEof cf) (mkSt (flat_map render_piece s ++ 92 :: 117 :: l) o pk d)
  = Err EofWhileParsingString (o + length (flat_map render_piece s) + 2 + length l).
Proof. exact reject_hex_eof. Qed.

(* the same verdicts on reader input *)
Theorem C05_reject_reader : forall cf s c i,
  parse_str (mkEnv RSlice TEof cf) s = Err c i -> parse_str (mkEnv RIo TEof cf) s = Err c i.
Proof. exact slice_err_io. Qed.
Theorem C05_accept_reader : forall cf s b bw s1,
  parse_str (mkEnv RSlice TEof cf) s = Ok (b, bw, s1) -> parse_str (mkEnv RIo TEof cf) s = Ok (b, false, s1).
Proof. exact slice_ok_io. Qed.

(* ================= borrowed results ================= *)
(* borrowed exactly when the literal has no escape *)
Theorem C05_borrowed : forall cf s b rst off pk d b' bw s1,
  str_ok s = true -> str_text s = Some b ->
  parse_str (mkEnv RSlice TEof cf) (mkSt (flat_map render_piece s ++ 34 :: rst) off pk d) = Ok (b', bw, s1) ->
  bw = forallb (fun p => match p with PRaw _ => true | _ => false end) s.
Proof. exact parse_str_borrowed. Qed.

(* a borrowed result is the input subslice between the cursor and the closing quote, and it contains no special byte *)
Theorem C05_borrowed_subslice : forall cf s0 b s1,
  Forall (fun x => x < 256) (rest s0) ->
  parse_str (mkEnv RSlice TEof cf) s0 = Ok (b, true, s1) ->
  rest s0 = b ++ 34 :: rest s1 /\ off s1 = (off s0 + length b + 1)%nat
  /\ forallb (fun x => negb (is_escape x true)) b = true.
Proof. exact borrowed_subslice. Qed.

(* ================= deserialised as bytes ================= *)
(* the same decoding, total: unpaired surrogates in WTF-8 form, raw bytes (control characters, non-UTF-8) unchanged *)
Theorem C05_bytes : forall cf s rst off pk d,
  str_ok_raw s = true ->
  parse_str_raw (mkEnv RSlice TEof cf) (mkSt (flat_map render_piece s ++ 34 :: rst) off pk d)
  = Ok (str_decode_wtf8 s, forallb (fun p => match p with PRaw _ => true | _ => false end) s,
        mkSt rst (off + length (flat_map render_piece s) + 1) false d).
Proof. exact parse_str_raw_complete. Qed.
Theorem C05_bytes_str : forall cf s rst off pk d,
  str_ok_raw s = true ->
  parse_str_raw (mkEnv RStr TEof cf) (mkSt (flat_map render_piece s ++ 34 :: rst) off pk d)
  = Ok (str_decode_wtf8 s, forallb (fun p => match p with PRaw _ => true | _ => false end) s,
        mkSt rst (off + length (flat_map render_piece s) + 1) false d).
Proof. exact parse_str_raw_complete_str. Qed.
Theorem C05_bytes_reader : forall cf s rst off pk d,
  str_ok_raw s = true ->
  parse_str_raw (mkEnv RIo TEof cf) (mkSt (flat_map render_piece s ++ 34 :: rst) off pk d)
  = Ok (str_decode_wtf8 s, false, mkSt rst (off + length (flat_map render_piece s) + 1) false d).
Proof. exact parse_str_raw_complete_io. Qed.
(* conversely: whatever is accepted as bytes is such a literal, and the result is its WTF-8 decoding *)
Theorem C05_bytes_sound : forall cf s0 b bw s1,
  Forall (fun x => (x < 256)%N) (rest s0) ->
  parse_str_raw (mkEnv RSlice TEof cf) s0 = Ok (b, bw, s1) ->
  exists s, rest s0 = flat_map render_piece s ++ 34 :: rest s1 /\ str_ok_raw s = true /\ str_decode_wtf8 s = b
         /\ (off s1 = off s0 + length (flat_map render_piece s) + 1)%nat /\ pk s1 = false /\ depth s1 = depth s0
         /\ bw = forallb (fun p => match p with PRaw _ => true | _ => false end) s.
Proof. exact parse_str_raw_sound. Qed.
(* the same decoding applies: where the text decoding is defined the two agree *)
Theorem C05_bytes_extends_text : forall n s, (length s <= n)%nat -> forall b,
  str_decode s = Some b -> str_decode_wtf8 s = b.
Proof. exact str_decode_wtf8_text. Qed.
Theorem C05_encode_wtf8 : forall n, n <= 1114111 -> push_wtf8 n = Ok (utf8_encode n).
Proof. exact push_wtf8_any. Qed.

(* ================= str input ================= *)
(* StrRead does not re-validate: on valid UTF-8 input the result (and the remaining input) is valid UTF-8 *)
Theorem C05_utf8_safe : forall cf s0 out bw s1,
  utf8_valid (rest s0) = true ->
  parse_str (mkEnv RStr TEof cf) s0 = Ok (out, bw, s1) ->
  utf8_valid out = true /\ utf8_valid (rest s1) = true.
Proof. exact utf8_safe. Qed.

(* and str input behaves exactly like slice input *)
Theorem C05_str_eq_slice : forall cf s0,
  utf8_valid (rest s0) = true ->
  parse_str (mkEnv RStr TEof cf) s0 = parse_str (mkEnv RSlice TEof cf) s0.
Proof. exact str_eq_slice. Qed.

(* the UTF-8 facts used *)
Theorem C05_utf8_cut : forall a x b, x < 128 ->
  utf8_valid (a ++ x :: b) = true -> utf8_valid a = true /\ utf8_valid b = true.
Proof. exact utf8_valid_cut. Qed.
Theorem C05_utf8_app : forall a b, utf8_valid a = true -> utf8_valid b = true -> utf8_valid (a ++ b) = true.
Proof. exact utf8_valid_app. Qed.

(* ================= readers agree; the chunked scanner ================= *)
Theorem C05_reader_eq_slice : forall cf s,
  StrRefine.drop_flag (parse_str (mkEnv RIo TEof cf) s) = StrRefine.drop_flag (parse_str (mkEnv RSlice TEof cf) s).
Proof. exact parse_str_io_slice. Qed.
Theorem C05_reader_eq_slice_bytes : forall cf s,
  StrRefine.drop_flag (parse_str_raw (mkEnv RIo TEof cf) s) = StrRefine.drop_flag (parse_str_raw (mkEnv RSlice TEof cf) s).
Proof. exact parse_str_raw_io_slice. Qed.
Theorem C05_total : forall rk cf s,
  let r := parse_str (mkEnv rk TEof cf) s in r <> OutOfFuel /\ r <> Panic.
Proof. exact parse_str_total. Qed.
Theorem C05_total_bytes : forall rk cf s,
  let r := parse_str_raw (mkEnv rk TEof cf) s in r <> OutOfFuel /\ r <> Panic.
Proof. exact parse_str_raw_total. Qed.

(* the 8-byte SWAR scan of SliceRead::skip_to_escape finds exactly the first special byte, at every offset and length *)
Theorem C05_swar : forall l, Forall (fun b => (b < 256)%N) l -> swar_skip l = esc_span true l.
Proof. exact swar_skip_spec. Qed.
Theorem C05_memchr : forall l, memchr_skip l = esc_span false l.
Proof. exact memchr_skip_spec. Qed.

(* ================= non-vacuity ================= *)
(* a, quote, newline, U+0001, e-acute, U+1F600 *)
Example C05_example_escape :
  escape_str [97; 34; 10; 1; 195; 169; 240; 159; 152; 128]
  = [[34]; [97]; [92; 34]; [92; 110]; [92; 117; 48; 48; 48; 49]; [195; 169; 240; 159; 152; 128]; [34]].
Proof. vm_compute. reflexivity. Qed.
Example C05_example_roundtrip :
  parse_str (mkEnv RSlice TEof (mkCfg false false false false))
    (init_st (tl (escape_concat [97; 34; 10; 1; 195; 169; 240; 159; 152; 128])))
  = Ok ([97; 34; 10; 1; 195; 169; 240; 159; 152; 128], false, mkSt [] 18 false 128).
Proof. vm_compute. reflexivity. Qed.
(* a surrogate pair in upper-case hex, a lone high surrogate followed by x, an overlong-free invalid byte *)
Example C05_example_pair :
  parse_str (mkEnv RSlice TEof (mkCfg false false false false)) (init_st [92;117;68;56;51;68;92;117;68;69;48;48;34])
  = Ok ([240;159;152;128], false, mkSt [] 13 false 128).
Proof. vm_compute. reflexivity. Qed.
Example C05_example_lone :
  parse_str (mkEnv RSlice TEof (mkCfg false false false false)) (init_st [92;117;100;56;48;48;120;34])
  = Err UnexpectedEndOfHexEscape 7
  /\ parse_str_raw (mkEnv RSlice TEof (mkCfg false false false false)) (init_st [92;117;100;56;48;48;120;34])
  = Ok ([237;160;128;120], false, mkSt [] 8 false 128).
Proof. split; vm_compute; reflexivity. Qed.
Example C05_example_utf8 :
  parse_str (mkEnv RSlice TEof (mkCfg false false false false)) (init_st [97; 255; 34]) = Err InvalidUnicodeCodePoint 3.
Proof. vm_compute. reflexivity. Qed.

Print Assumptions C05_escape_shape.
Print Assumptions C05_escape_concat.
Print Assumptions C05_escape_no_panic.
Print Assumptions C05_escape_buffers.
Print Assumptions C05_escape_valid_utf8.
Print Assumptions C05_roundtrip.
Print Assumptions C05_roundtrip_str.
Print Assumptions C05_roundtrip_reader.
Print Assumptions C05_hex_groups.
Print Assumptions C05_decode.
Print Assumptions C05_decode_rejects.
Print Assumptions C05_decode_decides.
Print Assumptions C05_decode_sound.
Print Assumptions C05_literal_unique.
Print Assumptions C05_reject_control.
Print Assumptions C05_reject_unknown_escape.
Print Assumptions C05_reject_malformed_hex.
Print Assumptions C05_reject_lone_low_surrogate.
Print Assumptions C05_reject_high_then_other.
Print Assumptions C05_reject_high_then_escape.
Print Assumptions C05_reject_high_then_nonlow.
Print Assumptions C05_reject_high_then_malformed.
Print Assumptions C05_reject_invalid_utf8.
Print Assumptions C05_reject_eof.
Print Assumptions C05_reject_reader.
Print Assumptions C05_borrowed.
Print Assumptions C05_borrowed_subslice.
Print Assumptions C05_bytes.
Print Assumptions C05_bytes_str.
Print Assumptions C05_bytes_reader.
Print Assumptions C05_bytes_sound.
Print Assumptions C05_bytes_extends_text.
Print Assumptions C05_utf8_safe.
Print Assumptions C05_str_eq_slice.
Print Assumptions C05_reader_eq_slice.
Print Assumptions C05_total.
Print Assumptions C05_swar.
From Coq Require Import String.
From SJ Require Import Base.Bytes Gen.Tables Model.Read Model.Str Model.StrAst Gen.StrTables Proofs.StrSrc.
Require Import Lia ZifyBool ZifyNat ZifyN.
From SJ Require Import Proofs.StrSrc2.
Theorem C05_escape_decoding_is_source : forall (E : env) (v : bool) (s : st) (buf : bytes) (fuel mfuel : nat),
  (* push_wtf8_codepoint(n, scratch) *)
  (forall n : N, (3 <= fuel)%nat ->
     run_str fuel E v STR_PROG "push_wtf8_codepoint" [(U32, Z.of_N n)] s buf = let* w := push_wtf8 n in Ok (RvUnit, buf ++ w, s)) /\
  (* the statics HEX0 / HEX1, as built by build_hex_table from decode_hex_val_slow *)
  STR_HEX_SLOW = map (fun '(lo, hi, add) => (Z.of_N lo, Z.of_N hi, Z.of_N lo, Z.of_N add)) HEX_RANGES /\
  (forall a : N, (a < 256)%N ->
     static_get STR_PROG "HEX0" (Z.of_N a) = Ok (I16, hex_tab 0 a) /\ static_get STR_PROG "HEX1" (Z.of_N a) = Ok (I16, hex_tab 4 a)) /\
  (* decode_four_hex_digits(a, b, c, d) *)
  (forall a b c d : N, (a < 256)%N -> (b < 256)%N -> (c < 256)%N -> (d < 256)%N -> (2 <= fuel)%nat ->
     run_str fuel E v STR_PROG "decode_four_hex_digits" [(U8, Z.of_N a); (U8, Z.of_N b); (U8, Z.of_N c); (U8, Z.of_N d)] s buf =
     Ok (RvOpt (option_map (fun n => (U16, Z.of_N n)) (decode_four_hex a b c d)), buf, s)) /\
  (* ignore_escape(read) *)
  ((3 <= fuel)%nat ->
     run_str fuel E v STR_PROG "ignore_escape" [] s buf = let* s' := ignore_escape E s in Ok (RvUnit, buf, s')) /\
  (* parse_escape(read, validate, scratch) *)
  ((length (rest s) + 16 <= fuel)%nat -> (length (rest s) + 1 <= mfuel)%nat ->
     run_str fuel E v STR_PROG "parse_escape" [] s buf = lift_app buf (parse_escape mfuel E v s)) /\
  (* parse_unicode_escape(read, validate, scratch) *)
  ((length (rest s) + 14 <= fuel)%nat -> (length (rest s) + 1 <= mfuel)%nat ->
     run_str fuel E v STR_PROG "parse_unicode_escape" [] s buf = lift_app buf (parse_unicode_escape mfuel E v s)).
Proof. exact (@StrSrc2.escape_decoding_is_translated_source). Qed.
Print Assumptions C05_escape_decoding_is_source.

From Coq Require Import String.
From SJ Require Import Base.Bytes Base.Utf8 Gen.Tables Model.Ser Model.EscAst Gen.EscTables.
From SJ Require Model.SerStr Proofs.StrEscape Proofs.Utf8Lemmas Proofs.SerUtf8.
Require Import Lia ZifyBool ZifyNat ZifyN.
From SJ Require Import Proofs.EscSrc.
Theorem C05_string_escaping_is_source :
  forall (W : Type) (wall : W -> bytes -> W * res unit) (strict : bool) (fuel : nat) (w : W),
  (* static ESCAPE: [u8; 256] with its named constants *)
  (ESC_ESCAPE_VALUES = ESCAPE_TABLE /\ length ESC_ESCAPE = 256%nat /\
   forall a, (a < 256)%N ->
     static_get ESC_PROG "ESCAPE" (Z.of_N a) = Ok (VInt U8 (Z.of_N (SerStr.escape_of a))) /\
     SerStr.escape_of a = nth (N.to_nat a) ESC_ESCAPE_VALUES 0%N /\
     (SerStr.escape_of a =? 0)%N = negb (StrEscape.needs_escape a)) /\
  (* CharEscape::from_escape_table(escape, byte) *)
  (forall e b, (2 <= fuel)%nat ->
     run_esc wall strict ESC_PROG fuel "CharEscape::from_escape_table" [VInt U8 (Z.of_N e); VInt U8 (Z.of_N b)] w
     = (w, rmap enc (SerStr.from_escape_table e b))) /\
  (* Formatter::write_char_escape(writer, char_escape): one write_all of SerStr.write_char_escape *)
  (forall ce, (forall b, ce = SerStr.CEAsciiControl b -> (b < 256)%N) -> (2 <= fuel)%nat ->
     run_esc wall strict ESC_PROG fuel "Formatter::write_char_escape" [enc ce] w = wv (wall w (SerStr.write_char_escape ce))) /\
  (* format_escaped_str_contents / format_escaped_str *)
  (forall s, rust_str strict s -> (4 <= fuel)%nat ->
     run_esc wall strict ESC_PROG fuel "format_escaped_str_contents" [VStr s] w = as_val (run_trw wall w (Ser.format_escaped_str_contents s))) /\
  (forall s, rust_str strict s -> (5 <= fuel)%nat ->
     run_esc wall strict ESC_PROG fuel "format_escaped_str" [VStr s] w = as_val (run_trw wall w (Ser.format_escaped_str s))) /\
  (* Serializer::serialize_str / serialize_char, MapKeySerializer::serialize_str / serialize_char *)
  (forall s, rust_str strict s -> (7 <= fuel)%nat ->
     run_esc wall strict ESC_PROG fuel "Serializer::serialize_str" [VStr s] w = as_val (run_trw wall w (Ser.format_escaped_str s)) /\
     run_esc wall strict ESC_PROG fuel "MapKeySerializer::serialize_str" [VStr s] w = as_val (run_trw wall w (Ser.format_escaped_str s))) /\
  (forall c, is_scalar c = true -> (7 <= fuel)%nat ->
     run_esc wall strict ESC_PROG fuel "Serializer::serialize_char" [VChar c] w
     = as_val (run_trw wall w (Ser.format_escaped_str (utf8_encode c))) /\
     run_esc wall strict ESC_PROG fuel "MapKeySerializer::serialize_char" [VChar c] w
     = as_val (run_trw wall w (Ser.format_escaped_str (utf8_encode c)))) /\
  (* the two hand models are the same function, and the trace writer yields Model/SerStr.v's buffers *)
  (forall s, Forall (fun b => (b < 256)%N) s ->
     SerStr.format_escaped_str s = Ok (SerStr.escape_str s) /\ Ser.format_escaped_str s = (SerStr.escape_str s, Ok tt)) /\
  (forall s, rust_str strict s -> (7 <= fuel)%nat ->
     run_esc tw strict ESC_PROG fuel "Serializer::serialize_str" [VStr s] [] = (SerStr.escape_str s, Ok VUnit)).
Proof. exact (@EscSrc.string_escaping_is_translated_source). Qed.
Print Assumptions C05_string_escaping_is_source.

Theorem C05_escape_table_is_source :
  ESC_ESCAPE_VALUES = ESCAPE_TABLE /\
  (forall a, (a < 256)%N ->
     static_get P "ESCAPE" (Z.of_N a) = Ok (VInt U8 (Z.of_N (SerStr.escape_of a))) /\
     SerStr.escape_of a = nth (N.to_nat a) ESC_ESCAPE_VALUES 0%N /\
     (SerStr.escape_of a =? 0)%N = negb (StrEscape.needs_escape a)) /\
  length ESC_ESCAPE = 256%nat.
Proof. exact (@EscSrc.escape_table_is_source). Qed.
Print Assumptions C05_escape_table_is_source.

From Coq Require Import String.
From SJ Require Import Base.Bytes Base.Utf8 Gen.Tables Model.Read Model.Str Model.StrScanAst Gen.StrScanTables Gen.StrTables Proofs.StrScanSrc.
From SJ Require Model.ScanAst Model.StrAst Proofs.StrSrc Proofs.StrSrc2.
Require Import Lia ZifyBool ZifyNat ZifyN.
From SJ Require Import Proofs.StrScanSrc2.
Local Open Scope string_scope.
Local Open Scope list_scope.
Theorem C05_string_scanning_is_source : forall (E : env) (sl : bytes) (s : st) (buf : bytes) (fuel mfuel : nat),
  let len := length (rest s) in
  let run := fun fn args => run_scan fuel E STR_PROG SCAN_PROG sl fn args s buf in
  (* is_escape(ch, including_control_characters) *)
  (forall b ctrl, (1 <= fuel)%nat -> run "is_escape" [VInt TU8 b; VBool ctrl] = Ok (RvBool (is_escape b ctrl), buf, s)) /\
  (* as_str(read, slice) *)
  (forall w, (1 <= fuel)%nat -> run "as_str" [VBytes w] = let* t := as_str_model E s w in Ok (RvStr t, buf, s)) /\
  (* SliceRead (and StrRead, whose delegate is one): the cursor is the view of the slice; usize and u8 are what they are *)
  (is_io E = false -> view_ok sl s -> word_ok sl -> bytes_ok sl ->
     ((esc_span true (rest s) + 4 <= fuel)%nat ->
        run "SliceRead::skip_to_escape_slow" [] = Ok (RvUnit, buf, moved sl (esc_span true (rest s)) s)) /\
     (forall ctrl, (16 <= fuel)%nat ->
        run "SliceRead::skip_to_escape" [VBool ctrl] = Ok (RvUnit, buf, moved sl (esc_span ctrl (rest s)) s)) /\
     (forall v c, (2 * len + 42 <= fuel)%nat -> (len + 2 <= mfuel)%nat ->
        run "SliceRead::parse_str_bytes" [VBool v; VClo c] = psb_post E c buf (slice_str_loop mfuel E v s)) /\
     ((len + 41 <= fuel)%nat -> (len + 1 <= mfuel)%nat ->
        run "SliceRead::ignore_str" [] = let* s' := slice_ignore_loop mfuel E s in Ok (RvUnit, buf, s')) /\
     ((2 * len + 44 <= fuel)%nat -> (len + 2 <= mfuel)%nat ->
        run "SliceRead::parse_str" [] = psb_post E CloAsStr buf (slice_str_loop mfuel E true s)) /\
     ((2 * len + 44 <= fuel)%nat -> (len + 2 <= mfuel)%nat ->
        run "SliceRead::parse_str_raw" [] = psb_post E CloBytes buf (slice_str_loop mfuel E false s)) /\
     ((2 * len + 44 <= fuel)%nat -> (len + 2 <= mfuel)%nat ->
        run "StrRead::parse_str" [] = psb_post E CloUnchecked buf (slice_str_loop mfuel E true s)) /\
     ((2 * len + 46 <= fuel)%nat -> (len + 2 <= mfuel)%nat ->
        run "StrRead::parse_str_raw" [] = psb_post E CloBytes buf (slice_str_loop mfuel E false s)) /\
     ((len + 43 <= fuel)%nat -> (len + 1 <= mfuel)%nat ->
        run "StrRead::ignore_str" [] = let* s' := slice_ignore_loop mfuel E s in Ok (RvUnit, buf, s'))) /\
  (* IoRead: generic calls only, so for every reader kind *)
  (forall v c, (2 * len + 31 <= fuel)%nat -> (len + 2 <= mfuel)%nat ->
     run "IoRead::parse_str_bytes" [VBool v; VClo c] = io_post E c buf (io_str_loop mfuel E v s)) /\
  ((len + 31 <= fuel)%nat -> (len + 1 <= mfuel)%nat ->
     run "IoRead::ignore_str" [] = let* s' := io_ignore_loop mfuel E s in Ok (RvUnit, buf, s')) /\
  ((2 * len + 33 <= fuel)%nat -> (len + 2 <= mfuel)%nat ->
     run "IoRead::parse_str" [] = io_ref_post E CloAsStr buf (io_str_loop mfuel E true s)) /\
  ((2 * len + 33 <= fuel)%nat -> (len + 2 <= mfuel)%nat ->
     run "IoRead::parse_str_raw" [] = io_ref_post E CloBytes buf (io_str_loop mfuel E false s)) /\
  (* Read::{parse_str, parse_str_raw, ignore_str} of the reader kind of E, scratch cleared: Model/Str.v parse_str / parse_str_raw / ignore_str *)
  (slice_hyps E sl s -> (2 * len + 46 <= fuel)%nat ->
     run_scan fuel E STR_PROG SCAN_PROG sl (reader_name E ++ "::parse_str")%string [] s [] = ref_of (Str.parse_str E s) /\
     run_scan fuel E STR_PROG SCAN_PROG sl (reader_name E ++ "::parse_str_raw")%string [] s [] = ref_of (Str.parse_str_raw E s) /\
     run (reader_name E ++ "::ignore_str")%string [] = let* s' := Str.ignore_str E s in Ok (RvUnit, buf, s')).
Proof. exact (@StrScanSrc2.string_scanning_is_translated_source). Qed.
Print Assumptions C05_string_scanning_is_source.

