(* Properties/C01.v — the parser accepts exactly the RFC 8259 language (model level). Pinned statements only. *)
From SJ Require Import Base.Bytes Base.Utf8 Base.FloatB Gen.Tables Model.Read Model.Str Model.Num Model.Value Model.De Spec.Syntax Spec.Denote.
From SJ Require Import Proofs.GrammarFinal Proofs.GrammarStr Proofs.GrammarNum Proofs.StrSource.

(* InLang cf bs (Spec/Denote.v): bs = ws* ++ render c ++ ws* for a well-formed syntax tree c (Spec/Syntax.v: the RFC 8259 grammar
   as a printer) whose strings decode to valid UTF-8 with every \u surrogate paired, whose numbers are in range
   ([denote] defined), and which nests at most 127 containers deep unless the limit is disabled. *)
Theorem C01_slice : forall cf bs, Forall (fun b => (b < 256)%N) bs ->
  ((exists v, from_input (mkEnv RSlice TEof cf) bs = Ok v) <-> InLang cf bs).
Proof. exact lang_slice. Qed.

Theorem C01_reader : forall cf bs, Forall (fun b => (b < 256)%N) bs ->
  ((exists v, from_input (mkEnv RIo TEof cf) bs = Ok v) <-> InLang cf bs).
Proof. exact lang_reader. Qed.

(* from_str: the &str source does not re-validate UTF-8; on valid UTF-8 input (which a &str is) it accepts exactly the same language *)
Theorem C01_str : forall cf bs, utf8_valid bs = true -> Forall (fun b => (b < 256)%N) bs ->
  ((exists v, from_input (mkEnv RStr TEof cf) bs = Ok v) <-> InLang cf bs).
Proof. intros cf bs Hu Hb. rewrite (from_input_str_slice cf bs Hu). apply lang_slice; exact Hb. Qed.

(* the number clause: a well-formed number literal is rejected only as out of range, never under arbitrary_precision *)
Theorem C01_number_rejection_is_range : forall E positive n rst off pk d,
  tm E = TEof -> num_ok n = true -> num_follow rst ->
  match parse_any_number E positive (init_st (render_abs n)) with
  | Ok (p, _) => parse_any_number E positive (mkSt (render_abs n ++ rst) off pk d) = Ok (p, st_end (render_abs n) rst off d)
  | Err c _ => c = NumberOutOfRange /\ exists i, parse_any_number E positive (mkSt (render_abs n ++ rst) off pk d) = Err NumberOutOfRange i
  | OutOfFuel | Panic => False
  end.
Proof. exact number_local. Qed.

(* the string clause: a well-formed literal whose text is undefined (unpaired surrogate / invalid UTF-8) is rejected *)
Theorem C01_string_rejection : forall cf s rst off pk d,
  str_ok s = true -> str_text s = None ->
  exists c i, parse_str (mkEnv RSlice TEof cf) (mkSt (flat_map render_piece s ++ 34%N :: rst) off pk d) = Err c i.
Proof. exact parse_str_rejects. Qed.

(* non-vacuity: a member of the language and some non-members *)
Definition cfg0 := mkCfg false false false false.
Example C01_member : InLang cfg0 [32; 91; 49; 44; 34; 97; 34; 93; 10]%N.          (* ` [1,"a"]\n` *)
Proof.
  exists [32%N], (CArr [] (ECons [] (CNum (mkNum false [49%N] None None)) [] (ECons [] (CStr [PRaw 97%N]) [] ENil))), [10%N].
  vm_compute. repeat split; try reflexivity; try (intros; lia). eexists; reflexivity.
Qed.
Example C01_rejects_trailing_comma : from_input (mkEnv RSlice TEof cfg0) [91; 49; 44; 93]%N = Err TrailingComma 4.
Proof. vm_compute. reflexivity. Qed.
Example C01_rejects_leading_zero : from_input (mkEnv RSlice TEof cfg0) [48; 49]%N = Err InvalidNumber 2.
Proof. vm_compute. reflexivity. Qed.
Example C01_rejects_empty : from_input (mkEnv RSlice TEof cfg0) [] = Err EofWhileParsingValue 0.
Proof. vm_compute. reflexivity. Qed.

Print Assumptions C01_slice.
Print Assumptions C01_reader.
Print Assumptions C01_str.
Print Assumptions C01_number_rejection_is_range.
Print Assumptions C01_string_rejection.

(* ---- eleven small cursor functions of de.rs TRANSLATED ON THIS RUN (tools/translate_cursor.py -> Gen/CursorTables.v; AST and interpreter Model/ScanAst.v): the number
        skipper (ignore_integer / _decimal / _exponent), parse_ident, parse_whitespace, parse_object_colon, end_seq, end_map, peek_end_of_value, has_next_element,
        has_next_key — the hand-written models equal the interpreted source for every state and enough fuel ---- *)
From Coq Require Import String.
From SJ Require Import Base.Bytes Base.Utf8 Gen.Tables Model.Read Model.Num Model.De Model.Stream Model.ScanAst Gen.CursorTables Proofs.ScanSrc.
Require Import Lia Btauto.
From SJ Require Import Proofs.CursorSrc.
Theorem C01_cursor_functions_are_source : forall (E : env) (s : st) (buf : bytes) (fuel : nat),
  ((length (rest s) + 11 <= fuel)%nat ->
     run_scan fuel E CURSOR_TABLE "ignore_integer" None s buf = liftu buf (Num.ignore_integer E s)) /\
  ((length (rest s) + 8 <= fuel)%nat ->
     run_scan fuel E CURSOR_TABLE "ignore_decimal" None s buf = liftu buf (Num.ignore_decimal E s)) /\
  ((length (rest s) + 5 <= fuel)%nat ->
     run_scan fuel E CURSOR_TABLE "ignore_exponent" None s buf = liftu buf (Num.ignore_exponent E s)) /\
  (forall ident : bytes, (4 <= fuel)%nat ->
     run_scan_v fuel E CURSOR_TABLE "parse_ident" (Some (VBytes ident)) s buf = liftu buf (Read.parse_ident E ident s)) /\
  ((length (rest s) + 5 <= fuel)%nat ->
     run_scan fuel E CURSOR_TABLE "parse_whitespace" None s buf =
     let* (o, s') := Read.parse_whitespace E s in Ok (ROpt o, buf, s')) /\
  ((length (rest s) + 8 <= fuel)%nat ->
     run_scan fuel E CURSOR_TABLE "parse_object_colon" None s buf = liftu buf (De.parse_object_colon E s)) /\
  ((length (rest s) + 10 <= fuel)%nat ->
     run_scan fuel E CURSOR_TABLE "end_seq" None s buf = liftu buf (De.end_seq E s)) /\
  ((length (rest s) + 8 <= fuel)%nat ->
     run_scan fuel E CURSOR_TABLE "end_map" None s buf = liftu buf (De.end_map E s)) /\
  ((3 <= fuel)%nat ->
     run_scan fuel E CURSOR_TABLE "peek_end_of_value" None s buf = liftu buf (Stream.peek_end_of_value E s)) /\
  (forall first : bool, (length (rest s) + 12 <= fuel)%nat ->
     run_scan_v fuel E CURSOR_TABLE "has_next_element" (Some (VBool first)) s buf = lift_has E buf s (De.has_next_element E first s)) /\
  (forall first : bool, (length (rest s) + 12 <= fuel)%nat ->
     run_scan_v fuel E CURSOR_TABLE "has_next_key" (Some (VBool first)) s buf = lift_has E buf s (De.has_next_key E first s)) /\
  (first_branch_clears (fbody CUR_has_next_element) = true /\ first_branch_clears (fbody CUR_has_next_key) = true).
Proof. exact (@CursorSrc.cursor_model_is_translated_source). Qed.
Print Assumptions C01_cursor_functions_are_source.

From Coq Require Import String List ZArith Lia.
From SJ Require Import Base.Bytes Base.Utf8 Gen.Tables Model.Read Model.Str Model.Num Model.NumF32 Model.Ignore Model.Ty
  Gen.CursorTables Gen.ScanTables Model.DeTyped Model.DeAst Gen.DeTables Proofs.DeSrc Model.Value Model.De.
From SJ Require Import Proofs.DeSrc2.
Theorem C01_typed_entry_points_are_source : forall (E : env) (f : nat) (tok : bool) (s : st) (fuel : nat), (40 <= fuel)%nat ->
  (* Model/De.v *)
  DeTyped.lift (parse_value (S f) E s) = as_tres (run E (value_vis E f) tok fuel "deserialize_any" s) /\
  de_end E s = as_unit (run E (value_vis E f) tok fuel "end" s) /\
  (* Model/DeTyped.v, one branch of de_typed per [ty] constructor *)
  de_typed (S f) E TBool s = as_tres (run E vis_bool tok fuel "deserialize_bool" s) /\
  (forall t, de_typed (S f) E (TInt t) s = as_tres (run E (vis_int t) tok fuel (int_method t) s)) /\
  de_typed (S f) E TF32 s = as_tres (run E (vis_num visit_f32) tok fuel "deserialize_f32" s) /\
  de_typed (S f) E TF64 s = as_tres (run E (vis_num visit_f64) tok fuel "deserialize_f64" s) /\
  de_typed (S f) E TChar s = as_tres (run E (vis_str visit_char) tok fuel "deserialize_char" s) /\
  de_typed (S f) E TStr s = as_tres (run E (vis_str visit_string) tok fuel "deserialize_string" s) /\
  de_typed (S f) E TBorrowedStr s = as_tres (run E (vis_str visit_borrowed_only) tok fuel "deserialize_str" s) /\
  de_typed (S f) E TBytes s = as_tres (run E (vis_bytes E f) tok fuel "deserialize_byte_buf" s) /\
  de_typed (S f) E TUnit s = as_tres (run E vis_unit tok fuel "deserialize_unit" s) /\
  de_typed (S f) E TUnitStruct s = as_tres (run E vis_unit tok fuel "deserialize_unit_struct" s) /\
  (forall t1, de_typed (S f) E (TOption t1) s = as_tres (run E (vis_option E f t1) tok fuel "deserialize_option" s)) /\
  (forall t1, de_typed (S f) E (TNewtype t1) s = as_tres (run E (vis_newtype E f t1) false fuel "deserialize_newtype_struct" s)) /\
  de_typed (S f) E TRaw s = as_tres (run E vis_raw true fuel "deserialize_newtype_struct" s) /\
  (forall t1, de_typed (S f) E (TSeq t1) s = as_tres (run E (vis_seq E f t1) tok fuel "deserialize_seq" s)) /\
  (forall ts, de_typed (S f) E (TTuple ts) s = as_tres (run E (vis_tuple E f ts) tok fuel "deserialize_tuple" s)) /\
  (forall ts, de_typed (S f) E (TTupleStruct ts) s = as_tres (run E (vis_tuple E f ts) tok fuel "deserialize_tuple_struct" s)) /\
  (forall k v, de_typed (S f) E (TMap k v) s = as_tres (run E (vis_map E f k v) tok fuel "deserialize_map" s)) /\
  (forall fields, de_typed (S (S f)) E (TStruct fields) s = as_tres (run E (vis_struct E f fields) tok fuel "deserialize_struct" s)) /\
  (forall vs, de_typed (S f) E (TEnum vs) s = as_tres (run E (vis_enum E f vs) tok fuel "deserialize_enum" s)) /\
  de_typed (S f) E TIgnored s = as_tres (run E vis_ignored tok fuel "deserialize_ignored_any" s).
Proof. exact (@DeSrc2.typed_entry_points_are_translated_source). Qed.
Print Assumptions C01_typed_entry_points_are_source.

