(* Properties/C03.v — Serialiser output is well-formed JSON that denotes the data. *)
From SJ Require Import Base.Bytes Base.Utf8 Base.FloatB Model.Read Model.Value Model.De Model.Sval Model.Ser Model.ValueSer
  Spec.Syntax Spec.Denote Spec.Layout
  Proofs.SerBase Proofs.SerHint Proofs.SerRender Proofs.SerValue Proofs.SerWriter Proofs.SerMain.
From SJ Require Import Proofs.SerFinal.
From SJ Require Import Model.FmtAst Gen.FmtTables Proofs.SerFmt.

(* compact output of any well-formed call tree: exactly one well-formed JSON text, no insignificant whitespace,
   denoting the data-model image *)
Theorem C03_sval_render : forall cf fmt32 fmt64 v bufs, ryu_json fmt32 fmt64 -> wfs v = true ->
  serialize cf fmt32 fmt64 Compact v = Ok bufs ->
  exists c, concat bufs = render c /\ wfb c = true /\ nows c = true /\ denote cf c = image cf fmt32 fmt64 v.
Proof. exact C03_sval_render_main. Qed.
Print Assumptions C03_sval_render.

(* serialisation fails exactly when a map key is not serialisable, with KeyMustBeAString / FloatKeyMustBeFinite at line 0 column 0,
   for either formatter *)
Theorem C03_errors : forall cf fmt32 fmt64 F v, wfs v = true ->
  (serialisable v = true -> exists bufs, serialize cf fmt32 fmt64 F v = Ok bufs)
  /\ (serialisable v = false -> exists e, serialize cf fmt32 fmt64 F v = Err e O /\ (e = KeyMustBeAString \/ e = FloatKeyMustBeFinite)).
Proof. exact C03_errors_main. Qed.
Print Assumptions C03_errors.

(* pretty output is the layout of the same syntax tree (same token stream), for any indent string *)
Theorem C03_pretty_layout : forall cf fmt32 fmt64 v bufs ind, wfs v = true ->
  serialize cf fmt32 fmt64 Compact v = Ok bufs ->
  exists c bufsp, concat bufs = render c /\ serialize cf fmt32 fmt64 (Pretty ind) v = Ok bufsp /\ concat bufsp = layout ind 0 c.
Proof. exact C03_pretty_layout_main. Qed.
Print Assumptions C03_pretty_layout.

(* ... and with a whitespace indent it is itself one well-formed JSON text with the same denotation *)
Theorem C03_pretty_valid : forall cf fmt32 fmt64 v bufsp ind, ryu_json fmt32 fmt64 -> wfs v = true -> ws_ok ind = true ->
  serialize cf fmt32 fmt64 (Pretty ind) v = Ok bufsp ->
  exists c, concat bufsp = render c /\ wfb c = true /\ denote cf c = image cf fmt32 fmt64 v.
Proof. exact C03_pretty_valid_main. Qed.
Print Assumptions C03_pretty_valid.

(* length hints: None and Some(exact) give the same buffers and outcome, at the top ... *)
Theorem C03_hint_irrelevant_seq : forall cf fmt32 fmt64 F es,
  serialize cf fmt32 fmt64 F (SSeq None es) = serialize cf fmt32 fmt64 F (SSeq (Some (length es)) es).
Proof. exact Proofs.SerHint.C03_hint_irrelevant_seq. Qed.
Print Assumptions C03_hint_irrelevant_seq.
Theorem C03_hint_irrelevant_map : forall cf fmt32 fmt64 F kvs,
  serialize cf fmt32 fmt64 F (SMap None kvs) = serialize cf fmt32 fmt64 F (SMap (Some (length kvs)) kvs).
Proof. exact Proofs.SerHint.C03_hint_irrelevant_map. Qed.
Print Assumptions C03_hint_irrelevant_map.
(* ... and anywhere inside a well-formed tree *)
Theorem C03_hint_irrelevant_deep : forall cf fmt32 fmt64 F v, wfs v = true ->
  serialize cf fmt32 fmt64 F v = serialize cf fmt32 fmt64 F (hint_free v).
Proof. exact Proofs.SerHint.C03_hint_irrelevant_deep. Qed.
Print Assumptions C03_hint_irrelevant_deep.

(* the output is valid UTF-8 (pretty: when the indent string is) *)
Theorem C03_utf8 : forall cf fmt32 fmt64 F v bufs, ryu_json fmt32 fmt64 ->
  (forall ind, F = Pretty ind -> utf8_valid ind = true) -> wfs v = true ->
  serialize cf fmt32 fmt64 F v = Ok bufs -> utf8_valid (concat bufs) = true.
Proof. exact C03_utf8_main'. Qed.
Print Assumptions C03_utf8.

(* Values: `impl Serialize for Value` prints a text denoting the Value itself (and its pretty layout) *)
Theorem C03_value_render : forall cf fmt32 fmt64 v, ryu_json fmt32 fmt64 -> ryu_reads_back_value cf fmt64 -> 
  wf_value cf v = true ->
  exists bufs c,
    serialize cf fmt32 fmt64 Compact (sval_of_value v) = Ok bufs
    /\ concat bufs = render c /\ wfb c = true /\ nows c = true /\ denote cf c = Some v
    /\ (forall ind, exists bufsp, serialize cf fmt32 fmt64 (Pretty ind) (sval_of_value v) = Ok bufsp /\ concat bufsp = layout ind 0 c).
Proof. exact C03_value_render_final. Qed.
Print Assumptions C03_value_render.

(* ... which the parser reads back as that Value (parser completeness, Proofs/GrammarValue.v value_complete, as a hypothesis) *)
Theorem C03_value_roundtrip : forall cf fmt32 fmt64 v, ryu_json fmt32 fmt64 -> ryu_reads_back_value cf fmt64 -> 
   wf_value cf v = true ->
  exists bufs c, serialize cf fmt32 fmt64 Compact (sval_of_value v) = Ok bufs /\ concat bufs = render c /\
    ((limit_disabled cf = false -> (cdepth c <= 127)%nat) -> from_input (mkEnv RSlice TEof cf) (concat bufs) = Ok v).
Proof. exact C03_value_roundtrip_final. Qed.
Print Assumptions C03_value_roundtrip.

(* Display / {:#}: the same run into a writer that never fails receives exactly to_string's / to_string_pretty's bytes *)
Theorem C03_display : forall cf fmt32 fmt64 F v sched,
  let t := serialize_trace cf fmt32 fmt64 F v in
  snd (run_writer (mkW [] sched None) t) = snd t /\ accepted (fst (run_writer (mkW [] sched None) t)) = concat (fst t).
Proof. exact C03_display_main. Qed.
Print Assumptions C03_display.

(* the hypothesis about ryu is satisfiable *)
Example C03_ryu_json_satisfiable : ryu_json (fun _ => [48; 46; 49]) (fun _ => [49; 101; 49; 54]).
Proof. exact ryu_json_instance. Qed.

(* the formatter functions of the model are the Formatter method bodies of src/ser.rs as TRANSLATED ON THIS RUN
   (Gen/FmtTables.v, tools/translate_fmt.py): trait defaults = CompactFormatter, and PrettyFormatter's overrides *)
Theorem C03_formatter_is_source : forall F first st,
  begin_array F st = run_method m_begin_array F first st /\ end_array F st = run_method m_end_array F first st /\
  begin_array_value F first st = run_method m_begin_array_value F first st /\ end_array_value F st = run_method m_end_array_value F first st /\
  begin_object F st = run_method m_begin_object F first st /\ end_object F st = run_method m_end_object F first st /\
  begin_object_key F first st = run_method m_begin_object_key F first st /\ end_object_key F st = run_method m_end_object_key F first st /\
  begin_object_value F st = run_method m_begin_object_value F first st /\ end_object_value F st = run_method m_end_object_value F first st /\
  (fst write_null, st) = run_method m_write_null F first st /\ (fst begin_string, st) = run_method m_begin_string F first st /\
  (fst end_string, st) = run_method m_end_string F first st.
Proof. exact formatter_model_is_translated_source. Qed.
Print Assumptions C03_formatter_is_source.

(* ---- the text map-key serializer is the 31 method bodies of src/ser.rs as TRANSLATED ON THIS RUN (tools/translate_keys.py -> Gen/KeyTables.v) ---- *)
From SJ Require Import Base.Bytes Base.Utf8 Model.Read Model.Num Model.Sval Model.Ser Model.ValueSer Model.KeyAst Gen.KeyTables.
From SJ Require Import Proofs.SerKeys.
Theorem C03_key_serializer_is_source : forall fmt32 fmt64 k,
  key_ser fmt32 fmt64 k = text_meaning fmt32 fmt64 (key_ser fmt32 fmt64) (klookup KEY_TEXT (method_of k)) k.
Proof. exact SerKeys.key_ser_is_table. Qed.
Print Assumptions C03_key_serializer_is_source.

Theorem C03_key_tables_agree : forall m, klookup KEY_TEXT m = klookup KEY_VALUE m /\ klookup KEY_TEXT m <> None.
Proof. exact SerKeys.key_tables_agree. Qed.
Print Assumptions C03_key_tables_agree.


(* ---- the Serializer's control logic TRANSLATED ON THIS RUN (tools/translate_ser.py -> Gen/SerTables.v: the 31 methods of impl Serializer for &mut Serializer and the 15
        methods of the seven Compound impls, statement by statement, with the State transitions): Ser.ser is the interpretation of the translated methods composed
        according to the serde call protocol, for every node of the call tree ---- *)
From SJ Require Import Base.Bytes Base.Utf8 Model.Read Model.Num Model.Sval Model.Ser Model.KeyAst Model.SerAst Gen.SerTables.
From SJ Require Import Proofs.SerSrc.
Theorem C03_serializer_is_source :
  forall (cf : cfg) (raw_value : bool) (fmt32 fmt64 : N -> bytes) (F : formatter) (sname : bytes) (v : sval) (st : fstate),
  is_private_token SER_SOURCE sname = false ->
  ser cf fmt32 fmt64 F v st =
  run_protocol SER_SOURCE (arbitrary_precision cf) raw_value fmt32 fmt64 F (ser cf fmt32 fmt64 F) (key_ser fmt32 fmt64) sname v st.
Proof. exact (@SerSrc.serializer_model_is_translated_source). Qed.
Print Assumptions C03_serializer_is_source.

Theorem C03_compound_methods_are_source :
  forall (ap rv : bool) (fmt32 fmt64 : N -> bytes) (F : formatter) (rec : sval -> fstate -> tr fstate) (keyser : sval -> tr unit)
         (cs : cstate) (st : fstate),
  let RUN := run SER_SOURCE ap rv fmt32 fmt64 F rec keyser SER_FUEL in
  (forall t f e, is_elem_method t f ->
     RUN (MComp t f) (with_value (ANode e)) (st, Some (CMap cs)) =
     do* st1 := lift (begin_array_value F (is_first cs) st) in do* st2 := rec e st1 in do* st3 := lift (end_array_value F st2) in
     tret (st3, Some (CMap Rest))) /\
  (forall t, t = TSeq \/ t = TTuple \/ t = TTupleStruct ->
     RUN (MComp t Cend) no_args (st, Some (CMap cs)) = do* st1 := close_seq F cs st in tret (st1, Some (CMap cs))) /\
  (RUN (MComp TTupleVariant Cend) no_args (st, Some (CMap cs)) =
     do* st1 := close_seq F cs st in do* st2 := close_variant F st1 in tret (st2, Some (CMap cs))) /\
  (forall k, RUN (MComp TMap Ckey) (set_arg PKey (ANode k) no_args) (st, Some (CMap cs)) =
     do* st1 := lift (begin_object_key F (is_first cs) st) in do* _ := keyser k in do* st2 := lift (end_object_key F st1) in
     tret (st2, Some (CMap Rest))) /\
  (forall v, RUN (MComp TMap Cvalue) (with_value (ANode v)) (st, Some (CMap cs)) =
     do* st1 := lift (begin_object_value F st) in do* st2 := rec v st1 in do* st3 := lift (end_object_value F st2) in
     tret (st3, Some (CMap cs))) /\
  (forall t, t = TMap \/ t = TStruct ->
     RUN (MComp t Cend) no_args (st, Some (CMap cs)) = do* st1 := close_map F cs st in tret (st1, Some (CMap cs))) /\
  (forall t k v, is_field_method t ->
     RUN (MComp t Cfield) (set_arg PKey (AStr k) (with_value (ANode v))) (st, Some (CMap cs)) =
     do* st1 := lift (begin_object_key F (is_first cs) st) in do* _ := keyser (SStr k) in do* st2 := lift (end_object_key F st1) in
     do* st3 := lift (begin_object_value F st2) in do* st4 := rec v st3 in do* st5 := lift (end_object_value F st4) in
     tret (st5, Some (CMap Rest))) /\
  (RUN (MComp TStructVariant Cend) no_args (st, Some (CMap cs)) =
     do* st1 := close_map F cs st in do* st2 := close_variant F st1 in tret (st2, Some (CMap cs))).
Proof. exact (@SerSrc.compound_methods_are_translated_source). Qed.
Print Assumptions C03_compound_methods_are_source.

