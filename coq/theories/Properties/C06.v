(* Properties/C06.v — Integers are exact and range-checked, never wrapped (typed text deserialization, model level).
   Only pinned statements: each is closed by `exact` of a lemma proved in Proofs/TypedInt.v (which builds on Proofs/NumInt.v).
   The model functions are Model/DeTyped.v ([de_typed] / [de_key]: the `impl Deserializer for &mut Deserializer<R>` methods and the
   MapKey deserializer of src/de.rs, driven by serde's range-checked primitive visitors); the correspondence check C06 of
   tools/checks/typed.py runs the extracted model against the real crate on the literal families of the property. *)
From SJ Require Import Base.Bytes Base.FloatB Gen.Tables Model.Read Model.Str Model.Num Model.Value Model.De Model.Ignore
  Model.Ty Model.DeTyped Spec.Syntax Proofs.NumInt Proofs.TypedInt Proofs.TypedMapKey.
Open Scope N_scope.

(* An integer literal (optional '-', then `0` or a digit string without leading zero) followed by end of input or a byte that does
   not continue a number, read into an 8..64-bit target from any reader state: the literal's mathematical value exactly when it is
   in the target's range and the literal is not -0; otherwise an error — never another value (no wrap, truncation, saturation). *)
Theorem C06_text : forall fuel E t neg ds rest off pk d,
  tm E = TEof -> is_128 t = false -> int_ok ds = true -> stops_number rest ->
  let lit := int_lit neg ds in
  let v := int_lit_val neg ds in
  let r := de_typed (S fuel) E (TInt t) (mkSt (lit ++ rest) off pk d) in
  if in_range t v && negb (is_neg_zero neg ds)
  then r = TOk (DInt v, st_after lit rest off d)
  else exists c i, r = TErr c i /\ (c = Message MInvalidValue \/ c = Message MInvalidType \/ c = NumberOutOfRange).
Proof. exact C06_text_64. Qed.
Print Assumptions C06_text.

(* A literal with a fraction or an exponent is never turned into an integer by the 8..64-bit targets. *)
Theorem C06_frac_exp_never_int : forall fuel E t neg ds c rest off pk d a,
  tm E = TEof -> is_128 t = false -> int_ok ds = true -> (c = 46 \/ c = 101 \/ c = 69)%N ->
  de_typed (S fuel) E (TInt t) (mkSt (int_lit neg ds ++ c :: rest) off pk d) <> TOk a.
Proof. exact TypedInt.C06_frac_exp_never_int. Qed.
Print Assumptions C06_frac_exp_never_int.

(* 128-bit targets (digit scan, then the model of str::parse): Ok exactly when in range, otherwise "number out of range". *)
Theorem C06_text_i128 : forall fuel E neg ds rest off pk d,
  tm E = TEof -> int_ok ds = true -> not_digit_next rest ->
  let lit := int_lit neg ds in
  let v := int_lit_val neg ds in
  de_typed (S fuel) E (TInt I128) (mkSt (lit ++ rest) off pk d) =
    if in_range I128 v then TOk (DInt v, st_after lit rest off d)
    else TErr NumberOutOfRange (err_idx E (st_after lit rest off d)).
Proof. exact TypedInt.C06_text_i128. Qed.
Print Assumptions C06_text_i128.

Theorem C06_text_u128 : forall fuel E neg ds rest off pk d,
  tm E = TEof -> int_ok ds = true -> not_digit_next rest ->
  let lit := int_lit neg ds in
  let v := int_lit_val neg ds in
  de_typed (S fuel) E (TInt U128) (mkSt (lit ++ rest) off pk d) =
    if neg then TErr NumberOutOfRange (peek_err_idx E (mkSt (lit ++ rest) off true d))
    else if in_range U128 v then TOk (DInt v, st_after lit rest off d)
    else TErr NumberOutOfRange (err_idx E (st_after lit rest off d)).
Proof. exact TypedInt.C06_text_u128. Qed.
Print Assumptions C06_text_u128.

(* The same through a quoted map key ("<literal>" read by the MapKey deserializer with an integer key type). *)
Theorem C06_key : forall fuel E t neg ds rest off pk d,
  tm E = TEof -> is_128 t = false -> int_ok ds = true ->
  let lit := int_lit neg ds in
  let v := int_lit_val neg ds in
  let r := de_key (S fuel) E (KInt t) (mkSt (34 :: lit ++ 34 :: rest) off pk d) in
  if in_range t v && negb (is_neg_zero neg ds)
  then r = TOk (DInt v, st_key_end lit rest off d)
  else exists c i, r = TErr c i /\ (c = Message MInvalidValue \/ c = Message MInvalidType \/ c = NumberOutOfRange).
Proof. exact C06_key_64. Qed.
Print Assumptions C06_key.

Theorem C06_key_frac_exp_never_int : forall fuel E t neg ds c rest off pk d a,
  tm E = TEof -> is_128 t = false -> int_ok ds = true -> (c = 46 \/ c = 101 \/ c = 69)%N ->
  de_key (S fuel) E (KInt t) (mkSt (34 :: int_lit neg ds ++ c :: rest) off pk d) <> TOk a.
Proof. exact TypedInt.C06_key_frac_exp_never_int. Qed.
Print Assumptions C06_key_frac_exp_never_int.

Theorem C06_key_i128 : forall fuel E neg ds rest off pk d,
  tm E = TEof -> int_ok ds = true ->
  let lit := int_lit neg ds in
  let v := int_lit_val neg ds in
  de_key (S fuel) E (KInt I128) (mkSt (34 :: lit ++ 34 :: rest) off pk d) =
    if in_range I128 v then TOk (DInt v, st_key_end lit rest off d)
    else TErr NumberOutOfRange (err_idx E (st_after lit (34 :: rest) (S off) d)).
Proof. exact TypedInt.C06_key_i128. Qed.
Print Assumptions C06_key_i128.

Theorem C06_key_u128 : forall fuel E neg ds rest off pk d,
  tm E = TEof -> int_ok ds = true ->
  let lit := int_lit neg ds in
  let v := int_lit_val neg ds in
  de_key (S fuel) E (KInt U128) (mkSt (34 :: lit ++ 34 :: rest) off pk d) =
    if neg then TErr NumberOutOfRange (peek_err_idx E (mkSt (lit ++ 34 :: rest) (S off) true d))
    else if in_range U128 v then TOk (DInt v, st_key_end lit rest off d)
    else TErr NumberOutOfRange (err_idx E (st_after lit (34 :: rest) (S off) d)).
Proof. exact TypedInt.C06_key_u128. Qed.
Print Assumptions C06_key_u128.

(* The whole document {"<literal>":null} read into a map with an 8..64-bit integer key type and unit values (the shape the
   correspondence check uses for the key route), from any reader state with at least one level of depth budget left. *)
Theorem C06_map_key : forall fuel E t neg ds rest off pk dk,
  tm E = TEof -> limit_disabled (cf E) = false -> (S dk < 255)%nat ->
  is_128 t = false -> int_ok ds = true ->
  let lit := int_lit neg ds in
  let v := int_lit_val neg ds in
  let r := de_typed (S (S (S fuel))) E (TMap (KInt t) TUnit)
             (mkSt (123 :: 34 :: lit ++ 34 :: null_close ++ rest) off pk (N.of_nat (S (S dk)))) in
  if in_range t v && negb (is_neg_zero neg ds)
  then r = TOk (DMap [(DInt v, DUnit)], mkSt rest (off + length lit + 9) false (N.of_nat (S (S dk))))
  else exists c i, r = TErr c i /\ (c = Message MInvalidValue \/ c = Message MInvalidType \/ c = NumberOutOfRange).
Proof. exact TypedMapKey.C06_map_key. Qed.
Print Assumptions C06_map_key.

(* the hypotheses are satisfiable and the statements say what they should *)
Example C06_ex_i8_max : de_typed 1 E_sl (TInt I8) (init_st [49;50;55]) = TOk (DInt 127, mkSt [] 3 false 128).
Proof. exact ex_i8_127. Qed.
Example C06_ex_i8_over : de_typed 1 E_sl (TInt I8) (init_st [49;50;56]) = TErr (Message MInvalidValue) 3.
Proof. exact ex_i8_128. Qed.
Example C06_ex_neg_zero : de_typed 1 E_sl (TInt I8) (init_st [45;48]) = TErr (Message MInvalidType) 2.
Proof. exact ex_i8_neg0. Qed.
Example C06_ex_key : de_key 1 E_sl (KInt U8) (init_st [34;50;53;53;34;58]) = TOk (DInt 255, mkSt [58] 5 false 128).
Proof. exact ex_key_u8. Qed.
Example C06_ex_map_key : from_input_typed E_sl (TMap (KInt U8) TUnit) [123;34;50;53;53;34;58;110;117;108;108;125] = TOk (DMap [(DInt 255, DUnit)]).
Proof. exact ex_map_u8_255. Qed.

(* ---- the clause 'from a Value' (Model/ValueDe.v; Proofs/ValueInt.v) and the Number accessors of the default representation (Proofs/NumberAcc.v) ---- *)
Local Open Scope N_scope.
From SJ Require Import Base.Bytes Base.Utf8 Base.FloatB Gen.Tables
  Model.Read Model.Str Model.Num Model.NumF32 Model.Value Model.De Model.Ignore Model.Ty Model.NumberM Model.DeTyped Model.ValueDe
  Spec.Syntax.
From SJ Require Import Proofs.NumInt Proofs.GrammarNum Proofs.ApNumber Proofs.TypedInt.
From Coq Require Import Lia ZifyBool ZifyNat ZifyN.
From SJ Require Import Proofs.ValueInt.
Theorem C06_value_owned : forall cf fx t v, arbitrary_precision cf = false ->
  from_value_owned cf fx (TInt t) v = c06v_spec t v.
Proof. exact ValueInt.C06_value_owned. Qed.
Print Assumptions C06_value_owned.

Theorem C06_value_ref : forall cf fx t v, arbitrary_precision cf = false ->
  from_value_ref cf fx (TInt t) v = c06v_spec t v.
Proof. exact ValueInt.C06_value_ref. Qed.
Print Assumptions C06_value_ref.

Theorem C06_value_ok_iff : forall cf fx t v d, arbitrary_precision cf = false ->
  (from_value_owned cf fx (TInt t) v = VOk d <->
   exists n z, v = VNum n /\ num_int n = Some z /\ Ty.in_range t z = true /\ d = DInt z).
Proof. exact ValueInt.C06_value_ok_iff. Qed.
Print Assumptions C06_value_ok_iff.

Theorem C06_value_float_never : forall cf fx t f, arbitrary_precision cf = false ->
  from_value_owned cf fx (TInt t) (VNum (NFloat f)) = VErr (Message MInvalidType) 0 0
  /\ from_value_ref cf fx (TInt t) (VNum (NFloat f)) = VErr (Message MInvalidType) 0 0.
Proof. exact ValueInt.C06_value_float_never. Qed.
Print Assumptions C06_value_float_never.

Theorem C06_value_parse : forall E fx t neg ds,
  tm E = TEof -> arbitrary_precision (cf E) = false -> int_ok ds = true ->
  let lit := int_lit neg ds in
  let z := int_lit_val neg ds in
  if fits_number z && negb (is_neg_zero neg ds)
  then from_input E lit = Ok (VNum (num_of_int z)) /\
       from_value_owned (cf E) fx (TInt t) (VNum (num_of_int z)) = (if Ty.in_range t z then VOk (DInt z) else verr MInvalidValue)
  else forall v, from_input E lit = Ok v -> from_value_owned (cf E) fx (TInt t) v = verr MInvalidType.
Proof. exact ValueInt.C06_value_parse. Qed.
Print Assumptions C06_value_parse.

Theorem C06_value_key_iff : forall cf b t key d,
  de_value_key cf b (KInt t) key = VOk d <->
  exists neg ds, int_ok ds = true /\ key = int_lit neg ds /\ d = DInt (int_lit_val neg ds) /\ key_accepts t neg ds = true.
Proof. exact ValueInt.C06_value_key_iff. Qed.
Print Assumptions C06_value_key_iff.

Theorem C06_value_key_vs_text : forall fuel E cf b t neg ds rest off pk d x,
  tm E = TEof -> int_ok ds = true ->
  let lit := int_lit neg ds in
  (de_value_key cf b (KInt t) lit = VOk x <->
   de_key (S fuel) E (KInt t) (mkSt (34 :: lit ++ 34 :: rest) off pk d) = TOk (x, st_key_end lit rest off d)).
Proof. exact ValueInt.C06_value_key_vs_text. Qed.
Print Assumptions C06_value_key_vs_text.

Theorem C06_value_map_key : forall cf fx t key,
  from_value_owned cf fx (TMap (KInt t) TUnit) (VObj [(key, VNull)]) =
    (let& kd := de_value_key cf false (KInt t) key in VOk (DMap [(kd, DUnit)]))
  /\ from_value_ref cf fx (TMap (KInt t) TUnit) (VObj [(key, VNull)]) =
    (let& kd := de_value_key cf true (KInt t) key in VOk (DMap [(kd, DUnit)])).
Proof. exact ValueInt.C06_value_map_key. Qed.
Print Assumptions C06_value_map_key.

From Coq Require Import Reals Lra Lia ZifyBool ZifyNat ZifyN.
From Flocq Require Import Core BinarySingleNaN.
From SJ Require Import Base.Bytes Base.Utf8 Base.FloatB Gen.Tables
  Model.Read Model.Str Model.Num Model.Value Model.De Model.Pointer Model.Ty Model.NumberM Model.DeTyped Model.ValueDe Spec.Syntax.
From SJ Require Import Proofs.FloatDefault Proofs.NumInt Proofs.TypedInt Proofs.SerValue Proofs.PointerEq Proofs.ValueInt.
From SJ Require Import Proofs.NumberAcc.
Theorem C06_as_u64 : forall n v, num_wf n = true ->
  (num_as_u64 n = Some v <-> num_int n = Some (Z.of_N v) /\ (Z.of_N v <= U64_MAX)%Z).
Proof. exact NumberAcc.C20_as_u64_default. Qed.
Print Assumptions C06_as_u64.

Theorem C06_as_i64 : forall n v, num_wf n = true ->
  (num_as_i64 n = Some v <-> num_int n = Some v /\ (I64_MIN <= v <= I64_MAX)%Z).
Proof. exact NumberAcc.C20_as_i64_default. Qed.
Print Assumptions C06_as_i64.

Theorem C06_as_u128 : forall n v, num_wf n = true ->
  (num_as_u128 n = Some v <-> num_int n = Some v /\ (0 <= v <= U64_MAX)%Z).
Proof. exact NumberAcc.C20_as_u128_default. Qed.
Print Assumptions C06_as_u128.

Theorem C06_as_i128 : forall n v, num_wf n = true ->
  (num_as_i128 n = Some v <-> num_int n = Some v /\ (I64_MIN <= v <= U64_MAX)%Z).
Proof. exact NumberAcc.C20_as_i128_default. Qed.
Print Assumptions C06_as_i128.

Theorem C06_is_u64 : forall n, num_is_u64 n = is_some (num_as_u64 n).
Proof. exact NumberAcc.C20_is_u64_default. Qed.
Print Assumptions C06_is_u64.

Theorem C06_is_i64 : forall n, num_is_i64 n = is_some (num_as_i64 n).
Proof. exact NumberAcc.C20_is_i64_default. Qed.
Print Assumptions C06_is_i64.

Theorem C06_is_f64 : forall n, num_wf n = true ->
  num_is_f64 n = negb (num_is_i64 n) && negb (num_is_u64 n)
  /\ num_is_f64 n = negb (is_some (num_as_i128 n))
  /\ (num_is_f64 n = true -> exists f, num_as_f64 n = Some f /\ n = NFloat f).
Proof. exact NumberAcc.C20_is_f64_default. Qed.
Print Assumptions C06_is_f64.

Theorem C06_as_f64 : forall n, num_wf n = true ->
  exists f, num_as_f64 n = Some f /\ is_finite f = true
    /\ match num_int n with
       | Some z => B2R f = RNE64 (IZR z)           (* `n as f64` *)
       | None => n = NFloat f
       end.
Proof. exact NumberAcc.C20_as_f64_default. Qed.
Print Assumptions C06_as_f64.

Theorem C06_value_via_as_i128 : forall cf fx t n d, arbitrary_precision cf = false ->
  (from_value_owned cf fx (TInt t) (VNum n) = VOk d <->
   exists z, num_as_i128 n = Some z /\ Ty.in_range t z = true /\ d = DInt z).
Proof. exact NumberAcc.C06_value_via_as_i128. Qed.
Print Assumptions C06_value_via_as_i128.

Theorem C06_accessors_parse : forall E neg ds,
  tm E = TEof -> arbitrary_precision (cf E) = false -> int_ok ds = true ->
  let lit := int_lit neg ds in
  let z := int_lit_val neg ds in
  if fits_number z && negb (is_neg_zero neg ds)
  then exists n, from_input E lit = Ok (VNum n) /\ num_wf n = true
         /\ num_as_i128 n = Some z
         /\ num_as_u128 n = (if (0 <=? z)%Z then Some z else None)
         /\ num_as_u64 n = (if (0 <=? z)%Z then Some (Z.to_N z) else None)
         /\ num_as_i64 n = (if (z <=? I64_MAX)%Z then Some z else None)
  else forall v, from_input E lit = Ok v ->
         v = VNull \/ exists f, v = VNum (NFloat f).
Proof. exact NumberAcc.C06_accessors_parse. Qed.
Print Assumptions C06_accessors_parse.


(* ---- the accessor models are the match arms of src/number.rs as TRANSLATED ON THIS RUN (tools/translate_num.py -> Gen/NumTables.v) ---- *)
From SJ Require Import Base.Bytes Base.FloatB Model.Value Model.Pointer Model.NumAst Gen.NumTables Proofs.NumberAcc.
Require Import Lia ZArith.
From SJ Require Import Proofs.NumAccSrc.
Theorem C06_accessors_are_source : forall n, default_repr n ->
  run_acc NUM_is_i64 n = RB (num_is_i64 n) /\ run_acc NUM_is_u64 n = RB (num_is_u64 n) /\ run_acc NUM_is_f64 n = RB (num_is_f64 n) /\
  run_acc NUM_as_i64 n = RO (match num_as_i64 n with Some z => Some (VI64 z) | None => None end) /\
  run_acc NUM_as_u64 n = RO (match num_as_u64 n with Some u => Some (VU64 u) | None => None end) /\
  run_acc NUM_as_f64 n = RO (match num_as_f64 n with Some f => Some (VF64 f) | None => None end) /\
  run_acc NUM_as_i128 n = RO (match num_as_i128 n with Some z => Some (VI128 z) | None => None end) /\
  run_acc NUM_as_u128 n = RO (match num_as_u128 n with Some z => Some (VU128 z) | None => None end).
Proof. exact NumAccSrc.accessor_models_are_translated_source. Qed.
Print Assumptions C06_accessors_are_source.


(* ---- from a Value under arbitrary_precision, all ten integer targets, with the F12b exclusion explicit (Proofs/ValueDeAgreeAp.v) ---- *)
From SJ Require Import Base.Bytes Base.Utf8 Base.FloatB Gen.Tables
  Model.Read Model.Str Model.Num Model.NumF32 Model.Value Model.De Model.Ignore Model.Ty Model.NumberM Model.DeTyped Model.ValueDe
  Spec.Syntax Spec.Denote Proofs.GrammarIgnore Proofs.GrammarValueComplete Proofs.SerValue Proofs.GrammarValueBase Proofs.GrammarStr Proofs.GrammarNum
  Proofs.ValueDeRef Proofs.ValueDeAgree Proofs.ValueDeText Proofs.ValueDeAgreeKey Proofs.ValueDeAgreeMap Proofs.ValueDeAgreeMisc.
From SJ Require Proofs.NumInt Proofs.TypedInt.
From SJ Require Import Proofs.ApNumber Proofs.ApNumberFloat Proofs.ValueInt Proofs.LexGlue Proofs.LexOracle Proofs.LexC07 Proofs.FloatDefault.
From SJ Require Model.Sval Model.Ser Model.ValueSer Spec.Layout Proofs.SerToValueAp.
From Coq Require Import Reals Lra.
From Flocq Require Import Core BinarySingleNaN.
Require Import Lia ZifyBool ZifyNat ZifyN.
From SJ Require Import Proofs.ValueDeAgreeAp.
Theorem C06_value_ap_all : forall cf fx (it : Ty.intty) n, arbitrary_precision cf = true -> num_ok n = true ->
  let lit := render_num n in
  let v := VNum (NLit lit) in
  let E := mkEnv RSlice TEof cf in
  (* the Value routes: str::parse — the literal's exact integer value iff it has neither fraction nor exponent, its sign is
     accepted by the target and the value is in range; never another value *)
  from_value_owned cf fx (TInt it) v =
    (if lit_is_int n && (int_signed it || negb (nneg n)) && Ty.in_range it (lit_int n)
     then VOk (DInt (lit_int n)) else VErr InvalidNumber 0 0)
  /\ same_mod_borrow (from_value_owned cf fx (TInt it) v) (from_value_ref cf fx (TInt it) v)
  (* against from_str on the Number's text: same success, same value, or both fail — unless F12b *)
  /\ (f12b it lit = false ->
      agree (from_value_owned cf fx (TInt it) v) (from_input_typed E (TInt it) lit)
      /\ agree (from_value_ref cf fx (TInt it) v) (from_input_typed E (TInt it) lit))
  (* F12b: `-0` into i8 / i16 / i32 / i64 is 0 through the Value and an error through the text *)
  /\ (f12b it lit = true ->
      from_value_owned cf fx (TInt it) v = VOk (DInt 0) /\ exists c i, from_input_typed E (TInt it) lit = TErr c i).
Proof. exact (@ValueDeAgreeAp.C06_value_ap_all). Qed.
Print Assumptions C06_value_ap_all.

From Coq Require Import String List ZArith Lia.
From SJ Require Import Base.Bytes Base.Utf8 Gen.Tables Model.Read Model.Str Model.Num Model.NumF32 Model.Ignore Model.Ty
  Gen.CursorTables Gen.ScanTables Model.DeTyped Model.DeAst Gen.DeTables Proofs.DeSrc Proofs.DeSrc2 Model.Value Model.De
  Model.AccessAst Gen.AccessTables Proofs.AccessSrc.
From SJ Require Import Proofs.AccessSrc2.
Local Open Scope string_scope.
Local Open Scope list_scope.
Local Open Scope N_scope.
Theorem C06_access_impls_are_source :
  forall (E : env) (f : nat) (tok : bool) (fuel : nat) (first : bool) (s : st), (60 <= fuel)%nat ->
  (* SeqAccess: Model/DeTyped.v de_elems, de_tuple; Model/De.v parse_seq *)
  (forall t, de_elems (S f) E t first s =
     loop_step (as_opt (arunA E no_vis tok (de_typed f E t) no_seed no_seed fuel "SeqAccess::next_element_seed" first s))
       (TOk ([], s)) (fun d first' s2 => let+ (ds, s3) := de_elems f E t first' s2 in TOk (d :: ds, s3))) /\
  (forall t ts, de_tuple (S f) E (t :: ts) first s =
     loop_step (as_opt (arunA E no_vis tok (de_typed f E t) no_seed no_seed fuel "SeqAccess::next_element_seed" first s))
       (TUnpos MInvalidLength s) (fun d first' s2 => let+ (ds, s3) := de_tuple f E ts first' s2 in TOk (d :: ds, s3))) /\
  DeTyped.lift (parse_seq (S f) E first s) =
     loop_step (as_opt (arunA E no_vis tok (fun s1 => DeTyped.lift (parse_value f E s1)) no_seed no_seed fuel "SeqAccess::next_element_seed" first s))
       (TOk ([], s)) (fun v first' s2 => let+ (vs, s3) := DeTyped.lift (parse_seq f E first' s2) in TOk (v :: vs, s3)) /\
  (* MapAccess: Model/DeTyped.v de_entries, de_fields; Model/De.v parse_map *)
  (forall k v, de_entries (S f) E k v first s =
     loop_step (as_opt (arunA E no_vis tok no_seed (de_key f E k) no_seed fuel "MapAccess::next_key_seed" first s))
       (TOk ([], s))
       (fun kd first' s2 =>
          let+ (vd, s4) := as_val (arunA E no_vis tok (de_typed f E v) no_seed no_seed fuel "MapAccess::next_value_seed" first' s2) in
          let+ (es, s5) := de_entries f E k v first' s4 in
          TOk ((kd, vd) :: es, s5))) /\
  (forall fields slots, de_fields (S f) E fields slots first s =
     loop_step (as_opt (arunA E no_vis tok no_seed
                          (fun s1 => as_val (arunA E field_vis tok no_seed no_seed no_seed fuel "MapKey::deserialize_identifier" false s1))
                          no_seed fuel "MapAccess::next_key_seed" first s))
       (let+ ds := finish_struct fields slots s in TOk (ds, s))
       (fun name first' s2 =>
          match index_of name fields with
          | Some (i, t) =>
            if slot_filled i slots then TUnpos MDuplicateField s2
            else
              let+ (d, s4) := as_val (arunA E no_vis tok (de_typed f E t) no_seed no_seed fuel "MapAccess::next_value_seed" first' s2) in
              de_fields f E fields (set_slot i d slots) first' s4
          | None =>
            let+ (_, s4) := as_val (arunA E no_vis tok (ignored_seed E) no_seed no_seed fuel "MapAccess::next_value_seed" first' s2) in
            de_fields f E fields slots first' s4
          end)) /\
  DeTyped.lift (parse_map (S f) E first s) =
     loop_step (as_opt (arunA E no_vis tok no_seed
                          (fun s1 => as_val (arunA E key_string_vis tok no_seed no_seed no_seed fuel "MapKey::deserialize_str" false s1))
                          no_seed fuel "MapAccess::next_key_seed" first s))
       (TOk ([], s))
       (fun k first' s2 =>
          let+ (v, s4) := as_val (arunA E no_vis tok (fun s3 => DeTyped.lift (parse_value f E s3)) no_seed no_seed fuel
                                    "MapAccess::next_value_seed" first' s2) in
          let+ (es, s5) := DeTyped.lift (parse_map f E first' s4) in
          TOk ((k, v) :: es, s5)) /\
  (* MapKey: Model/DeTyped.v de_key, every key type *)
  (forall k, de_key (S f) E k s = as_val (arunA E (key_vis E f k) false no_seed no_seed no_seed fuel (key_method k) first s)) /\
  (forall t, de_key (S f) E (KInt t) s = as_val (arunA E (vis_int t) tok no_seed no_seed no_seed fuel (key_int_method t) first s)) /\
  (* VariantAccess / UnitVariantAccess: the TEnum branch of Model/DeTyped.v de_typed *)
  (forall vs,
     vis_enum E (S f) vs VcEnumMap s =
       (let+ (nv, s3) := as_pair (arunA E no_vis tok (variant_seed_of E vs) no_seed no_seed fuel "VariantAccess::variant_seed" false s) in
        let '(name, v) := nv in
        tmap (DVariant name)
          (match v with
           | VUnit => tmap (fun _ => DUnit) (as_unit_a (arunA E (@no_vis dval) tok no_seed no_seed (unit_seed E) fuel "VariantAccess::unit_variant" false s3))
           | VNewtype t1 => as_val (arunA E no_vis tok (de_typed (S f) E t1) no_seed no_seed fuel "VariantAccess::newtype_variant_seed" false s3)
           | VTuple ts => as_val (arunA E (vis_tuple E (S f) ts) tok no_seed no_seed no_seed fuel "VariantAccess::tuple_variant" false s3)
           | VStruct fields => as_val (arunA E (vis_struct E f fields) tok no_seed no_seed no_seed fuel "VariantAccess::struct_variant" false s3)
           end)) /\
     vis_enum E (S f) vs VcEnumUnit s =
       (let+ (nv, s2) := as_pair (arunA E no_vis tok (variant_seed_of E vs) no_seed no_seed fuel "UnitVariantAccess::variant_seed" false s) in
        let '(name, v) := nv in
        match v with
        | VUnit => tmap (fun _ => DVariant name DUnit) (as_unit_a (arunA E (@no_vis dval) tok no_seed no_seed no_seed fuel "UnitVariantAccess::unit_variant" false s2))
        | VNewtype _ => as_val (arunA E (@no_vis dval) tok no_seed no_seed no_seed fuel "UnitVariantAccess::newtype_variant_seed" false s2)
        | VTuple _ => as_val (arunA E (@no_vis dval) tok no_seed no_seed no_seed fuel "UnitVariantAccess::tuple_variant" false s2)
        | VStruct _ => as_val (arunA E (@no_vis dval) tok no_seed no_seed no_seed fuel "UnitVariantAccess::struct_variant" false s2)
        end)).
Proof. exact (@AccessSrc2.access_impls_are_translated_source). Qed.
Print Assumptions C06_access_impls_are_source.

