(* Properties/C06.v — Integers are exact and range-checked, never wrapped (typed text deserialization, model level).
   Only pinned statements: each is closed by `exact` of a lemma proved in Proofs/TypedInt.v (which builds on Proofs/NumInt.v).
   The model functions are Model/DeTyped.v ([de_typed] / [de_key]: the `impl Deserializer for &mut Deserializer<R>` methods and the
   MapKey deserializer of src/de.rs, driven by serde's range-checked primitive visitors); the correspondence check C06 of
   tools/checks/typed.py runs the extracted model against the real crate on the literal families of the property. *)
From SJ Require Import Base.Bytes Base.FloatB Gen.Tables Model.Read Model.Str Model.Num Model.Value Model.De Model.Ignore
  Model.Ty Model.DeTyped Spec.Syntax Proofs.NumInt Proofs.TypedInt Proofs.TypedMapKey.
Open Scope N_scope.

(* An integer literal (optional '-', then `0` or a digit string without leading zero) followed by end of input or a byte that does
   not continue a number, read into an 8..64-bit target from any reader state: the literal's mathematical value exactly when it is
   in the target's range and the literal is not -0; otherwise an error — never another value (no wrap, truncation, saturation). *)
Theorem C06_text : forall fuel E t neg ds rest off pk d,
  tm E = TEof -> is_128 t = false -> int_ok ds = true -> stops_number rest ->
  let lit := int_lit neg ds in
  let v := int_lit_val neg ds in
  let r := de_typed (S fuel) E (TInt t) (mkSt (lit ++ rest) off pk d) in
  if in_range t v && negb (is_neg_zero neg ds)
  then r = TOk (DInt v, st_after lit rest off d)
  else exists c i, r = TErr c i /\ (c = Message MInvalidValue \/ c = Message MInvalidType \/ c = NumberOutOfRange).
Proof. exact C06_text_64. Qed.
Print Assumptions C06_text.

(* A literal with a fraction or an exponent is never turned into an integer by the 8..64-bit targets. *)
Theorem C06_frac_exp_never_int : forall fuel E t neg ds c rest off pk d a,
  tm E = TEof -> is_128 t = false -> int_ok ds = true -> (c = 46 \/ c = 101 \/ c = 69)%N ->
  de_typed (S fuel) E (TInt t) (mkSt (int_lit neg ds ++ c :: rest) off pk d) <> TOk a.
Proof. exact TypedInt.C06_frac_exp_never_int. Qed.
Print Assumptions C06_frac_exp_never_int.

(* 128-bit targets (digit scan, then the model of str::parse): Ok exactly when in range, otherwise "number out of range". *)
Theorem C06_text_i128 : forall fuel E neg ds rest off pk d,
  tm E = TEof -> int_ok ds = true -> not_digit_next rest ->
  let lit := int_lit neg ds in
  let v := int_lit_val neg ds in
  de_typed (S fuel) E (TInt I128) (mkSt (lit ++ rest) off pk d) =
    if in_range I128 v then TOk (DInt v, st_after lit rest off d)
    else TErr NumberOutOfRange (err_idx E (st_after lit rest off d)).
Proof. exact TypedInt.C06_text_i128. Qed.
Print Assumptions C06_text_i128.

Theorem C06_text_u128 : forall fuel E neg ds rest off pk d,
  tm E = TEof -> int_ok ds = true -> not_digit_next rest ->
  let lit := int_lit neg ds in
  let v := int_lit_val neg ds in
  de_typed (S fuel) E (TInt U128) (mkSt (lit ++ rest) off pk d) =
    if neg then TErr NumberOutOfRange (peek_err_idx E (mkSt (lit ++ rest) off true d))
    else if in_range U128 v then TOk (DInt v, st_after lit rest off d)
    else TErr NumberOutOfRange (err_idx E (st_after lit rest off d)).
Proof. exact TypedInt.C06_text_u128. Qed.
Print Assumptions C06_text_u128.

(* The same through a quoted map key ("<literal>" read by the MapKey deserializer with an integer key type). *)
Theorem C06_key : forall fuel E t neg ds rest off pk d,
  tm E = TEof -> is_128 t = false -> int_ok ds = true ->
  let lit := int_lit neg ds in
  let v := int_lit_val neg ds in
  let r := de_key (S fuel) E (KInt t) (mkSt (34 :: lit ++ 34 :: rest) off pk d) in
  if in_range t v && negb (is_neg_zero neg ds)
  then r = TOk (DInt v, st_key_end lit rest off d)
  else exists c i, r = TErr c i /\ (c = Message MInvalidValue \/ c = Message MInvalidType \/ c = NumberOutOfRange).
Proof. exact C06_key_64. Qed.
Print Assumptions C06_key.

Theorem C06_key_frac_exp_never_int : forall fuel E t neg ds c rest off pk d a,
  tm E = TEof -> is_128 t = false -> int_ok ds = true -> (c = 46 \/ c = 101 \/ c = 69)%N ->
  de_key (S fuel) E (KInt t) (mkSt (34 :: int_lit neg ds ++ c :: rest) off pk d) <> TOk a.
Proof. exact TypedInt.C06_key_frac_exp_never_int. Qed.
Print Assumptions C06_key_frac_exp_never_int.

Theorem C06_key_i128 : forall fuel E neg ds rest off pk d,
  tm E = TEof -> int_ok ds = true ->
  let lit := int_lit neg ds in
  let v := int_lit_val neg ds in
  de_key (S fuel) E (KInt I128) (mkSt (34 :: lit ++ 34 :: rest) off pk d) =
    if in_range I128 v then TOk (DInt v, st_key_end lit rest off d)
    else TErr NumberOutOfRange (err_idx E (st_after lit (34 :: rest) (S off) d)).
Proof. exact TypedInt.C06_key_i128. Qed.
Print Assumptions C06_key_i128.

Theorem C06_key_u128 : forall fuel E neg ds rest off pk d,
  tm E = TEof -> int_ok ds = true ->
  let lit := int_lit neg ds in
  let v := int_lit_val neg ds in
  de_key (S fuel) E (KInt U128) (mkSt (34 :: lit ++ 34 :: rest) off pk d) =
    if neg then TErr NumberOutOfRange (peek_err_idx E (mkSt (lit ++ 34 :: rest) (S off) true d))
    else if in_range U128 v then TOk (DInt v, st_key_end lit rest off d)
    else TErr NumberOutOfRange (err_idx E (st_after lit (34 :: rest) (S off) d)).
Proof. exact TypedInt.C06_key_u128. Qed.
Print Assumptions C06_key_u128.

(* The whole document {"<literal>":null} read into a map with an 8..64-bit integer key type and unit values (the shape the
   correspondence check uses for the key route), from any reader state with at least one level of depth budget left. *)
Theorem C06_map_key : forall fuel E t neg ds rest off pk dk,
  tm E = TEof -> limit_disabled (cf E) = false -> (S dk < 255)%nat ->
  is_128 t = false -> int_ok ds = true ->
  let lit := int_lit neg ds in
  let v := int_lit_val neg ds in
  let r := de_typed (S (S (S fuel))) E (TMap (KInt t) TUnit)
             (mkSt (123 :: 34 :: lit ++ 34 :: null_close ++ rest) off pk (N.of_nat (S (S dk)))) in
  if in_range t v && negb (is_neg_zero neg ds)
  then r = TOk (DMap [(DInt v, DUnit)], mkSt rest (off + length lit + 9) false (N.of_nat (S (S dk))))
  else exists c i, r = TErr c i /\ (c = Message MInvalidValue \/ c = Message MInvalidType \/ c = NumberOutOfRange).
Proof. exact TypedMapKey.C06_map_key. Qed.
Print Assumptions C06_map_key.

(* the hypotheses are satisfiable and the statements say what they should *)
Example C06_ex_i8_max : de_typed 1 E_sl (TInt I8) (init_st [49;50;55]) = TOk (DInt 127, mkSt [] 3 false 128).
Proof. exact ex_i8_127. Qed.
Example C06_ex_i8_over : de_typed 1 E_sl (TInt I8) (init_st [49;50;56]) = TErr (Message MInvalidValue) 3.
Proof. exact ex_i8_128. Qed.
Example C06_ex_neg_zero : de_typed 1 E_sl (TInt I8) (init_st [45;48]) = TErr (Message MInvalidType) 2.
Proof. exact ex_i8_neg0. Qed.
Example C06_ex_key : de_key 1 E_sl (KInt U8) (init_st [34;50;53;53;34;58]) = TOk (DInt 255, mkSt [58] 5 false 128).
Proof. exact ex_key_u8. Qed.
Example C06_ex_map_key : from_input_typed E_sl (TMap (KInt U8) TUnit) [123;34;50;53;53;34;58;110;117;108;108;125] = TOk (DMap [(DInt 255, DUnit)]).
Proof. exact ex_map_u8_255. Qed.
