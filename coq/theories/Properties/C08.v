(* Properties/C08.v — default (non float_roundtrip) float parsing (model level). Pinned statements only. *)
From Coq Require Import ZArith NArith Reals List.
From Flocq Require Import Core BinarySingleNaN.
From SJ Require Import Base.Bytes Base.FloatB Gen.Tables Model.Read Model.Num.
From SJ Require Import Proofs.FloatDefault Proofs.FloatOracle Proofs.FloatUlp.

(* the POW10 table regenerated from the Rust source this run is the table of correctly rounded powers of ten *)
Theorem C08_pow10_table : POW10_EXPS = map Z.of_nat (seq 0 309).
Proof. exact POW10_EXPS_are_0_to_308. Qed.
Theorem C08_pow10_correct : forall i, (0 <= i <= 308)%Z ->
  exists p, pow10_tab i = Some p /\ is_finite p = true /\ B2R p = RNE64 (powerRZ 10 i).
Proof. exact pow10_tab_correct. Qed.

(* the exact oracle used by the checks is the correctly rounded value *)
Theorem C08_oracle_correct : forall m e, (0 < m)%Z ->
  (Rabs (RNE64 (IZR m * powerRZ 10 e)) < bpow radix2 1024)%R ->
  is_finite (rne_decimal m e) = true /\ B2R (rne_decimal m e) = RNE64 (IZR m * powerRZ 10 e) /\ Bsign (rne_decimal m e) = false.
Proof. exact rne_decimal_correct. Qed.

(* never NaN or infinite, sign kept (including -0.0); never out of fuel *)
Theorem C08_sane : forall E positive sig e s f s', float_roundtrip (cf E) = false -> (sig <= u64_max)%N ->
  f64_from_parts E positive sig e s = Ok (f, s') -> is_finite f = true /\ Bsign f = negb positive /\ s' = s.
Proof. exact f64_from_parts_sane. Qed.
Theorem C08_total : forall E positive sig e s, float_roundtrip (cf E) = false -> (sig <= u64_max)%N ->
  (exists f, f64_from_parts E positive sig e s = Ok (f, s)) \/
  f64_from_parts E positive sig e s = peek_error E s NumberOutOfRange.
Proof. exact f64_from_parts_total. Qed.

(* exact (correctly rounded) on the short-literal domain: significand < 2^53 (covers 15 digits), |exponent| <= 22 *)
Theorem C08_exact : forall E positive sig e s, float_roundtrip (cf E) = false ->
  (Z.of_N sig < 2 ^ 53)%Z -> (-22 <= e <= 22)%Z ->
  exists f, f64_from_parts E positive sig e s = Ok (f, s) /\ is_finite f = true /\ Bsign f = negb positive /\
            B2R f = RNE64 ((if positive then IZR (Z.of_N sig) else - IZR (Z.of_N sig)) * powerRZ 10 e).
Proof. exact C08_exact_from_parts. Qed.

(* underflow gives zero; zero significand never errors *)
Theorem C08_underflow : forall sig e, (sig <= u64_max)%N ->
  (exact_val sig e <= bpow radix2 (-1076))%R ->
  exists z, f64_loop 4 (b64_of_Z (Z.of_N sig)) e = Ok (Some z) /\ B2R z = 0%R.
Proof. exact C08_underflow_zero. Qed.
Theorem C08_zero_significand : forall fuel e, exists z, f64_loop (S fuel) (b64_of_Z 0) e = Ok (Some z) /\ B2R z = 0%R.
Proof. exact f64_loop_zero. Qed.

(* range: rejected only if the exact value is within 2^-51 (relative) of, or beyond, 2^1024; always rejected if beyond by that margin *)
Theorem C08_reject_only_near_overflow : forall sig e, (0 < sig)%N -> (sig <= u64_max)%N ->
  f64_loop 4 (b64_of_Z (Z.of_N sig)) e = Ok None ->
  (bpow radix2 1024 * (1 - bpow radix2 (-51)) < exact_val sig e)%R.
Proof. exact FloatUlp.C08_reject_only_near_overflow. Qed.
Theorem C08_reject_if_beyond : forall sig e, (0 < sig)%N -> (sig <= u64_max)%N ->
  (bpow radix2 1024 * (1 + bpow radix2 (-51)) <= exact_val sig e)%R ->
  f64_loop 4 (b64_of_Z (Z.of_N sig)) e = Ok None.
Proof. exact FloatUlp.C08_reject_if_beyond. Qed.

(* accuracy in general: PARTIAL — relative error (3+2^-40)*2^-53 for exponents >= -308 and (5+2^-40)*2^-53 below, i.e. within
   3.5 / 5.5 ulp(v) of the correctly rounded value, for results in the normal range (v >= 2^-1021).  The property's constant 5 is
   NOT proved for the band e < -308 (first-order analysis gives 5.5) and subnormal results have only an absolute bound. *)
Theorem C08_ulp_partial : forall sig e f, (0 < sig)%N -> (sig <= u64_max)%N ->
  f64_loop 4 (b64_of_Z (Z.of_N sig)) e = Ok (Some f) ->
  (bpow radix2 (-1021) <= exact_val sig e)%R ->
  let v := exact_val sig e in
  let c := if (-308 <=? e)%Z then (3 + / 1099511627776)%R else (5 + / 1099511627776)%R in
  (Rabs (B2R f - v) <= c * u * v)%R /\
  (Rabs (B2R f - RNE64 v) <= (c + / 2) * ulp radix2 fexp64 v)%R.
Proof. exact FloatUlp.C08_ulp_partial. Qed.

(* the "always rejected if beyond the overflow threshold" clause is FALSE without a tolerance: a literal >= 2^1024 accepted as f64::MAX
   (known finding F11; witness evaluated in the kernel, same behaviour confirmed on the real crate) *)
Theorem C08_beyond_threshold_refuted :
  (2 ^ 1024 <= 179769313486231599 * 10 ^ 291)%Z /\ b64_is_inf (rne_decimal 179769313486231599 291) = true /\
  option_map bits_of_b64 (match f64_loop 4 (b64_of_Z 179769313486231599) 291 with Ok o => o | _ => None end) = Some 9218868437227405311%N.
Proof. exact accepted_beyond_threshold. Qed.

Print Assumptions C08_pow10_table.
Print Assumptions C08_oracle_correct.
Print Assumptions C08_sane.
Print Assumptions C08_exact.
Print Assumptions C08_ulp_partial.
Print Assumptions C08_beyond_threshold_refuted.

(* ---- the property's constant 5 PROVED for every band (Proofs/FloatUlp5.v, FloatUlp5b.v): in the low band the second divisor 10^j has j <= 22 and is exact, and
        1e308 is one specific double whose relative error against 10^308 is a computed constant (< u/10); proved constants: 3.5 ulp (exponent >= -308),
        3.6 ulp (below), 2 units of 2^-1074 for subnormal results ---- *)
From Coq Require Import ZArith NArith Reals Lia Lra List Bool Psatz.
From Flocq Require Import Core BinarySingleNaN Relative.
From SJ Require Import Base.Bytes Base.FloatB Gen.Tables Model.Read Model.Num.
From SJ Require Import Proofs.FloatDefault Proofs.FloatUlp.
From SJ Require Import Proofs.FloatUlp5.
Theorem C08_ulp_5_normal : forall sig e f, (0 < sig)%N -> (sig <= u64_max)%N ->
  f64_loop 4 (b64_of_Z (Z.of_N sig)) e = Ok (Some f) ->
  (bpow radix2 (-1022) <= exact_val sig e)%R ->
  let v := exact_val sig e in
  let c := if (-308 <=? e) then (3 + / 1099511627776)%R else (3 + / 10 + / 1099511627776)%R in
  (Rabs (B2R f - v) <= c * u * v)%R /\
  (Rabs (B2R f - RNE64 v) <= (c + / 2) * ulp radix2 fexp64 v)%R /\
  (Rabs (B2R f - RNE64 v) <= 5 * ulp radix2 fexp64 v)%R.
Proof. exact FloatUlp5.C08_ulp_5_normal. Qed.
Print Assumptions C08_ulp_5_normal.

Theorem C08_ulp_low : forall sig e f, (0 < sig)%N -> (sig <= u64_max)%N -> e < -308 ->
  f64_loop 4 (b64_of_Z (Z.of_N sig)) e = Ok (Some f) ->
  (bpow radix2 (-1022) <= exact_val sig e)%R ->
  let v := exact_val sig e in
  let c := (3 + / 10 + / 1099511627776)%R in
  (Rabs (B2R f - v) <= c * u * v)%R /\
  (Rabs (B2R f - RNE64 v) <= (c + / 2) * ulp radix2 fexp64 v)%R.
Proof. exact FloatUlp5.C08_ulp_low. Qed.
Print Assumptions C08_ulp_low.

From Coq Require Import ZArith NArith Reals Lia Lra List Bool Psatz.
From Flocq Require Import Core BinarySingleNaN Relative.
From SJ Require Import Base.Bytes Base.FloatB Gen.Tables Model.Read Model.Num.
From SJ Require Import Proofs.FloatDefault Proofs.FloatUlp Proofs.FloatUlp5.
From SJ Require Import Proofs.FloatUlp5b.
Theorem C08_within_5ulp : forall sig e f, (0 < sig)%N -> (sig <= u64_max)%N ->
  f64_loop 4 (b64_of_Z (Z.of_N sig)) e = Ok (Some f) ->
  (Rabs (B2R f - RNE64 (exact_val sig e)) <= 5 * ulp radix2 fexp64 (exact_val sig e))%R.
Proof. exact FloatUlp5b.C08_within_5ulp. Qed.
Print Assumptions C08_within_5ulp.

Theorem C08_subnormal_2 : forall sig e f, (0 < sig)%N -> (sig <= u64_max)%N ->
  f64_loop 4 (b64_of_Z (Z.of_N sig)) e = Ok (Some f) ->
  (exact_val sig e < bpow radix2 (-1022))%R ->
  (Rabs (B2R f - RNE64 (exact_val sig e)) <= 2 * bpow radix2 (-1074))%R.
Proof. exact FloatUlp5b.C08_subnormal_2. Qed.
Print Assumptions C08_subnormal_2.

Theorem C08_ulp_all : forall sig e f, (0 < sig)%N -> (sig <= u64_max)%N ->
  f64_loop 4 (b64_of_Z (Z.of_N sig)) e = Ok (Some f) ->
  let v := exact_val sig e in
  let c := if (-308 <=? e) then (3 + / 2 + / 1099511627776)%R else (3 + / 2 + / 10 + / 1099511627776)%R in
  (Rabs (B2R f - RNE64 v) <= c * ulp radix2 fexp64 v)%R.
Proof. exact FloatUlp5b.C08_ulp_all. Qed.
Print Assumptions C08_ulp_all.

From Coq Require Import String ZArith Lia ZifyBool ZifyNat ZifyN.
From SJ Require Import Base.Bytes Base.FloatB Gen.Tables Model.Read Model.Num Model.NumParseAst Gen.NumParseTables Proofs.NumInt
  Proofs.FloatDefault Proofs.NumParseSrc.
From Flocq Require Import Core BinarySingleNaN.
From SJ Require Import Proofs.NumParseSrc2.
Theorem C08_number_parser_is_source : forall (E : env), float_roundtrip (cf E) = false ->
  forall (positive : bool) (s : st) (fuel : nat),
  (forall zs pe, (length (rest s) + 5 <= fuel)%nat ->
     run fuel E NUMPARSE "parse_exponent_overflow" [VB positive; VB zs; VB pe] s = liftF (Num.parse_exponent_overflow E positive zs pe s)) /\
  (forall sig se, (sig <= u64_max)%N -> i32_ok se -> (length (rest s) + 16 <= fuel)%nat ->
     run fuel E NUMPARSE "parse_exponent" [VB positive; VInt U64 (Z.of_N sig); VInt I32 se] s = liftF (Num.parse_exponent E positive sig se s)) /\
  (forall sig e, (sig <= u64_max)%N -> i32_ok e -> (length (rest s) + 20 <= fuel)%nat ->
     run fuel E NUMPARSE "parse_decimal_overflow" [VB positive; VInt U64 (Z.of_N sig); VInt I32 e] s =
     liftF (Num.parse_decimal_overflow E positive sig e s)) /\
  (forall sig eb, (sig <= u64_max)%N ->
     -2147483648 <= eb - Z.of_nat (length (rest s)) -> eb <= 2147483647 -> Z.of_nat (length (rest s)) <= 2147483648 ->
     (length (rest s) + 30 <= fuel)%nat ->
     run fuel E NUMPARSE "parse_decimal" [VB positive; VInt U64 (Z.of_N sig); VInt I32 eb] s = liftF (Num.parse_decimal E positive sig eb s)) /\
  (forall sig, (sig <= u64_max)%N -> Z.of_nat (length (rest s)) <= 2147483647 -> (length (rest s) + 38 <= fuel)%nat ->
     run fuel E NUMPARSE "parse_long_integer" [VB positive; VInt U64 (Z.of_N sig)] s = liftF (Num.parse_long_integer E positive sig s)) /\
  (forall sig, (sig <= u64_max)%N -> Z.of_nat (length (rest s)) <= 2147483648 -> (length (rest s) + 34 <= fuel)%nat ->
     run fuel E NUMPARSE "parse_number" [VB positive; VInt U64 (Z.of_N sig)] s = liftP (Num.parse_number E positive sig s)) /\
  (Z.of_nat (length (rest s)) <= 2147483647 -> (length (rest s) + 47 <= fuel)%nat ->
     run fuel E NUMPARSE "parse_integer" [VB positive] s = liftP (Num.parse_integer E positive s)) /\
  (forall sig e, (sig <= u64_max)%N -> i32_ok e -> (10 <= fuel)%nat ->
     run fuel E NUMPARSE "f64_from_parts" [VB positive; VInt U64 (Z.of_N sig); VInt I32 e] s = liftF (Num.f64_from_parts E positive sig e s)).
Proof. exact (@NumParseSrc2.numparse_model_is_translated_source). Qed.
Print Assumptions C08_number_parser_is_source.

Theorem C08_overflow_macro_is_source : forall (l : locals) (a d : N),
  (lookup "significand" l = Some (VInt U64 (Z.of_N a)) -> lookup "digit" l = Some (VInt U64 (Z.of_N d)) ->
     eval (OVF "significand" "digit" U64 18446744073709551615) l = Ok (VB (overflow_mac a d u64_max))) /\
  (lookup "exp" l = Some (VInt I32 (Z.of_N a)) -> lookup "digit" l = Some (VInt I32 (Z.of_N d)) ->
     eval (OVF "exp" "digit" I32 2147483647) l = Ok (VB (overflow_mac a d i32_max))).
Proof. exact (@NumParseSrc2.overflow_macro_is_translated_source). Qed.
Print Assumptions C08_overflow_macro_is_source.

