(* Properties/C12.v — stream iteration yields each value once with exact offsets (model level). Pinned statements only. *)
From SJ Require Import Base.Bytes Base.FloatB Gen.Tables Model.Read Model.Str Model.Num Model.Value Model.De Model.Ignore Model.Stream Spec.Syntax Spec.Denote.
From SJ Require Import Proofs.StreamProps Proofs.StreamFinal.

(* the set of bytes that may follow a bare scalar: whitespace, structural characters, quote (end of input is handled separately) *)
Theorem C12_delimiters : forall b,
  is_delim b = (ws_byte b || (b =? 34) || (b =? 91) || (b =? 93) || (b =? 123) || (b =? 125) || (b =? 44) || (b =? 58))%N%bool.
Proof. exact is_delim_spec. Qed.

(* end of stream: only whitespace left => None, byte_offset past the trailing whitespace; and None forever with that offset *)
Theorem C12_end : forall E itemp ss,
  tm E = TEof -> (is_io E && ss_failed ss = false) -> ws_ok (rest (ss_st ss)) = true ->
  exists ss', stream_next E itemp ss = (None, ss')
    /\ ss_off ss' = (off (ss_st ss) + length (rest (ss_st ss)))%nat /\ rest (ss_st ss') = [].
Proof. exact stream_end. Qed.
Theorem C12_none_forever : forall E itemp ss ss',
  stream_next E itemp ss = (None, ss') -> forall n, stream_run n E itemp ss' = repeat (None, ss_off ss') n.
Proof. exact stream_none_forever_eq. Qed.

(* a malformed or truncated item: its error is yielded once, byte_offset = first byte of that value, then None forever
   (for both fusing mechanisms: the io flag and the slice truncation) *)
Theorem C12_terminal_error : forall E itemp ss w rst c i,
  tm E = TEof -> (is_io E && ss_failed ss = false) ->
  rest (ss_st ss) = w ++ rst -> ws_ok w = true ->
  (match rst with b :: _ => ws_byte b = false | [] => False end) ->
  itemp E (mkSt rst (off (ss_st ss) + length w)%nat true (depth (ss_st ss))) = Err c i ->
  exists ss', stream_next E itemp ss = (Some (IErr c i), ss')
    /\ ss_off ss' = (off (ss_st ss) + length w)%nat
    /\ forall n, Forall (fun o => fst o = None /\ snd o = (off (ss_st ss) + length w)%nat) (stream_run n E itemp ss').
Proof. exact stream_item_error. Qed.

(* a successful item: byte_offset just past the value; a bare scalar must be followed by a delimiter or the end of input *)
Theorem C12_item : forall E itemp ss w b r v s2,
  tm E = TEof -> (is_io E && ss_failed ss = false) ->
  rest (ss_st ss) = w ++ b :: r -> ws_ok w = true -> ws_byte b = false ->
  itemp E (mkSt (b :: r) (off (ss_st ss) + length w)%nat true (depth (ss_st ss))) = Ok (v, s2) ->
  (self_del b = true \/ rest s2 = [] \/ (exists b' r', rest s2 = b' :: r' /\ is_delim b' = true)) ->
  exists ss', stream_next E itemp ss = (Some (IVal v), ss')
    /\ ss_off ss' = off s2 /\ rest (ss_st ss') = rest s2 /\ depth (ss_st ss') = depth s2
    /\ ss_failed ss' = ss_failed ss /\ off (ss_st ss') = off s2.
Proof. exact stream_item_ok. Qed.
Theorem C12_scalar_needs_delimiter : forall E itemp ss w b r v s2 b' r',
  tm E = TEof -> (is_io E && ss_failed ss = false) ->
  rest (ss_st ss) = w ++ b :: r -> ws_ok w = true -> ws_byte b = false ->
  itemp E (mkSt (b :: r) (off (ss_st ss) + length w)%nat true (depth (ss_st ss))) = Ok (v, s2) ->
  self_del b = false -> rest s2 = b' :: r' -> is_delim b' = false ->
  exists c i ss', stream_next E itemp ss = (Some (IErr c i), ss') /\ c = TrailingCharacters
    /\ i = (off s2 + 1)%nat /\ ss_off ss' = off s2 /\ ss_st ss' = s2 /\ ss_failed ss' = ss_failed ss.
Proof. exact stream_scalar_needs_delim. Qed.

(* next() never panics / runs out of fuel by itself: a bad outcome can only come from the item parser (excluded by C14) *)
Theorem C12_total : forall E itemp ss ss',
  stream_next E itemp ss = (Some IBad, ss') -> exists s1, itemp E s1 = OutOfFuel \/ itemp E s1 = Panic.
Proof. exact stream_next_bad_only_from_item. Qed.

(* history theorem (all value lists, any reader kind among slice/io, any cfg): a concatenation  w0 v1 w1 v2 w2 ... vn wn  of values
   separated by optional whitespace, where every bare scalar is followed by whitespace, a delimiter byte or the end
   ([items_ok_full]), yields exactly v1..vn with byte_offset just past each value, then None forever with byte_offset at the end. *)
Theorem C12_values : forall (cf : cfg) (rk : rkind), (rk = RSlice \/ rk = RIo) ->
  forall (items : list (cst * value * list N)) (w0 : list N) (k : nat),
  ws_ok w0 = true -> items_ok_full cf items ->
  stream_run (length items + k) (mkEnv rk TEof cf) value_item (stream_init (w0 ++ stream_text items))
  = stream_obs (length w0) items ++ repeat (None, length (w0 ++ stream_text items)) k.
Proof. exact C12_values_final. Qed.

(* an I/O error hit by the one-byte lookahead after a bare scalar is terminal: yielded once, then None forever *)
Theorem C12_lookahead_io_terminal : forall E itemp ss w b r v s2 k i,
  is_io E = true ->
  (is_io E && ss_failed ss = false) ->
  rest (ss_st ss) = w ++ b :: r -> ws_ok w = true -> ws_byte b = false ->
  itemp E (mkSt (b :: r) (off (ss_st ss) + length w)%nat true (depth (ss_st ss))) = Ok (v, s2) ->
  self_del b = false -> peek_end_of_value E s2 = Err (Io k) i ->
  exists ss', stream_next E itemp ss = (Some (IErr (Io k) i), ss')
     /\ ss_off ss' = off s2
     /\ forall n, Forall (fun o => fst o = None /\ snd o = off s2) (stream_run n E itemp ss').
Proof. exact stream_lookahead_io_terminal. Qed.

(* non-vacuity *)
Example C12_example :
  stream_run 5 (mkEnv RIo TEof (mkCfg false false false false)) value_item
    (stream_init [49; 32; 91; 50; 93; 34; 120; 34; 32; 116; 114; 117]%N)            (* 1 [2]"x" tru *)
  = [(Some (IVal (VNum (NPos 1))), 1%nat); (Some (IVal (VArr [VNum (NPos 2)])), 5%nat); (Some (IVal (VStr [120%N])), 8%nat);
     (Some (IErr EofWhileParsingValue 12), 9%nat); (None, 9%nat)].
Proof. vm_compute. reflexivity. Qed.

Print Assumptions C12_end.
Print Assumptions C12_terminal_error.
Print Assumptions C12_item.
Print Assumptions C12_values.
Print Assumptions C12_lookahead_io_terminal.

(* ---- typed items (Proofs/StreamTypedProps.v): the same iterator over items of ANY type program (Model/StreamTyped.v) ---- *)
From SJ Require Import Model.Ty Model.DeTyped Model.StreamTyped.
From SJ Require Import Proofs.StreamTypedProps.
Theorem C12_typed_end : forall E t ss,
  tm E = TEof -> (is_io E && ss_failed ss = false) ->
  ws_ok (rest (ss_st ss)) = true ->
  exists ss', stream_next_typed E t ss = (None, ss')
    /\ ss_off ss' = (off (ss_st ss) + length (rest (ss_st ss)))%nat
    /\ rest (ss_st ss') = [].
Proof. exact (@StreamTypedProps.stream_typed_end). Qed.
Print Assumptions C12_typed_end.

Theorem C12_typed_none_forever : forall E t ss ss',
  stream_next_typed E t ss = (None, ss') ->
  forall n, stream_run_typed n E t ss' = repeat (None, ss_off ss') n.
Proof. exact (@StreamTypedProps.stream_typed_none_forever). Qed.
Print Assumptions C12_typed_none_forever.

Theorem C12_typed_item_error : forall E t ss w rst c i,
  tm E = TEof -> (is_io E && ss_failed ss = false) ->
  rest (ss_st ss) = w ++ rst -> ws_ok w = true ->
  (match rst with b :: _ => ws_byte b = false | [] => False end) ->
  (* the state after parse_whitespace: cursor on the first byte of the value, that byte peeked *)
  de_typed (typed_fuel t rst) E t (mkSt rst (off (ss_st ss) + length w)%nat true (depth (ss_st ss))) = TErr c i ->
  exists ss', stream_next_typed E t ss = (Some (TIErr c i), ss')
    /\ ss_off ss' = (off (ss_st ss) + length w)%nat
    /\ forall n, Forall (fun o => fst o = None /\ snd o = (off (ss_st ss) + length w)%nat) (stream_run_typed n E t ss').
Proof. exact (@StreamTypedProps.stream_typed_item_error). Qed.
Print Assumptions C12_typed_item_error.

Theorem C12_typed_item_ok : forall E t ss w b r v s2,
  tm E = TEof -> (is_io E && ss_failed ss = false) ->
  rest (ss_st ss) = w ++ b :: r -> ws_ok w = true -> ws_byte b = false ->
  de_typed (typed_fuel t (b :: r)) E t (mkSt (b :: r) (off (ss_st ss) + length w)%nat true (depth (ss_st ss))) = TOk (v, s2) ->
  (self_del b = true \/ rest s2 = [] \/ (exists b' r', rest s2 = b' :: r' /\ is_delim b' = true)) ->
  exists ss', stream_next_typed E t ss = (Some (TIVal v), ss')
    /\ ss_off ss' = off s2 /\ rest (ss_st ss') = rest s2 /\ depth (ss_st ss') = depth s2
    /\ ss_failed ss' = ss_failed ss /\ off (ss_st ss') = off s2.
Proof. exact (@StreamTypedProps.stream_typed_item_ok). Qed.
Print Assumptions C12_typed_item_ok.

Theorem C12_typed_scalar_needs_delim : forall E t ss w b r v s2 b' r',
  tm E = TEof -> (is_io E && ss_failed ss = false) ->
  rest (ss_st ss) = w ++ b :: r -> ws_ok w = true -> ws_byte b = false ->
  de_typed (typed_fuel t (b :: r)) E t (mkSt (b :: r) (off (ss_st ss) + length w)%nat true (depth (ss_st ss))) = TOk (v, s2) ->
  self_del b = false -> rest s2 = b' :: r' -> is_delim b' = false ->
  exists c i ss', stream_next_typed E t ss = (Some (TIErr c i), ss') /\ c = TrailingCharacters
    /\ i = (off s2 + 1)%nat /\ ss_off ss' = off s2 /\ ss_st ss' = s2 /\ ss_failed ss' = ss_failed ss.
Proof. exact (@StreamTypedProps.stream_typed_scalar_needs_delim). Qed.
Print Assumptions C12_typed_scalar_needs_delim.

Theorem C12_typed_depth_any : forall E t ss it ss',
  stream_next_typed E t ss = (it, ss') -> depth (ss_st ss') = depth (ss_st ss).
Proof. exact (@StreamTypedProps.stream_typed_depth_any). Qed.
Print Assumptions C12_typed_depth_any.

Theorem C12_typed_total_init : forall n E t input,
  Forall (fun o => fst o <> Some TIBad) (stream_run_typed n E t (stream_init input)).
Proof. exact (@StreamTypedProps.stream_typed_total_init). Qed.
Print Assumptions C12_typed_total_init.

Theorem C12_typed_history : forall E t (items : list (list N * dval * list N)) (w0 : list N) (k : nat),
  tm E = TEof -> ws_ok w0 = true -> titems_ok E t items ->
  stream_run_typed (length items + k) E t (stream_init (w0 ++ tstream_text items))
  = tstream_obs (length w0) items ++ repeat (None, length (w0 ++ tstream_text items)) k.
Proof. exact (@StreamTypedProps.stream_typed_history). Qed.
Print Assumptions C12_typed_history.


(* ---- eleven small cursor functions of de.rs TRANSLATED ON THIS RUN (tools/translate_cursor.py -> Gen/CursorTables.v; AST and interpreter Model/ScanAst.v): the number
        skipper (ignore_integer / _decimal / _exponent), parse_ident, parse_whitespace, parse_object_colon, end_seq, end_map, peek_end_of_value, has_next_element,
        has_next_key — the hand-written models equal the interpreted source for every state and enough fuel ---- *)
From Coq Require Import String.
From SJ Require Import Base.Bytes Base.Utf8 Gen.Tables Model.Read Model.Num Model.De Model.Stream Model.ScanAst Gen.CursorTables Proofs.ScanSrc.
Require Import Lia Btauto.
From SJ Require Import Proofs.CursorSrc.
Theorem C12_cursor_functions_are_source : forall (E : env) (s : st) (buf : bytes) (fuel : nat),
  ((length (rest s) + 11 <= fuel)%nat ->
     run_scan fuel E CURSOR_TABLE "ignore_integer" None s buf = liftu buf (Num.ignore_integer E s)) /\
  ((length (rest s) + 8 <= fuel)%nat ->
     run_scan fuel E CURSOR_TABLE "ignore_decimal" None s buf = liftu buf (Num.ignore_decimal E s)) /\
  ((length (rest s) + 5 <= fuel)%nat ->
     run_scan fuel E CURSOR_TABLE "ignore_exponent" None s buf = liftu buf (Num.ignore_exponent E s)) /\
  (forall ident : bytes, (4 <= fuel)%nat ->
     run_scan_v fuel E CURSOR_TABLE "parse_ident" (Some (VBytes ident)) s buf = liftu buf (Read.parse_ident E ident s)) /\
  ((length (rest s) + 5 <= fuel)%nat ->
     run_scan fuel E CURSOR_TABLE "parse_whitespace" None s buf =
     let* (o, s') := Read.parse_whitespace E s in Ok (ROpt o, buf, s')) /\
  ((length (rest s) + 8 <= fuel)%nat ->
     run_scan fuel E CURSOR_TABLE "parse_object_colon" None s buf = liftu buf (De.parse_object_colon E s)) /\
  ((length (rest s) + 10 <= fuel)%nat ->
     run_scan fuel E CURSOR_TABLE "end_seq" None s buf = liftu buf (De.end_seq E s)) /\
  ((length (rest s) + 8 <= fuel)%nat ->
     run_scan fuel E CURSOR_TABLE "end_map" None s buf = liftu buf (De.end_map E s)) /\
  ((3 <= fuel)%nat ->
     run_scan fuel E CURSOR_TABLE "peek_end_of_value" None s buf = liftu buf (Stream.peek_end_of_value E s)) /\
  (forall first : bool, (length (rest s) + 12 <= fuel)%nat ->
     run_scan_v fuel E CURSOR_TABLE "has_next_element" (Some (VBool first)) s buf = lift_has E buf s (De.has_next_element E first s)) /\
  (forall first : bool, (length (rest s) + 12 <= fuel)%nat ->
     run_scan_v fuel E CURSOR_TABLE "has_next_key" (Some (VBool first)) s buf = lift_has E buf s (De.has_next_key E first s)) /\
  (first_branch_clears (fbody CUR_has_next_element) = true /\ first_branch_clears (fbody CUR_has_next_key) = true).
Proof. exact (@CursorSrc.cursor_model_is_translated_source). Qed.
Print Assumptions C12_cursor_functions_are_source.

From Coq Require Import String List NArith Lia.
From SJ Require Import Base.Bytes Gen.Tables Model.Read Model.Value Model.Stream Model.ScanAst Gen.CursorTables Proofs.CursorSrc
  Model.StreamAst Gen.StreamTables Proofs.StreamProps.
Require SJ.Model.ReadAst SJ.Gen.ReadTables.
From SJ Require Import Proofs.StreamSrc.
Local Open Scope string_scope.
Local Open Scope list_scope.
Theorem C12_stream_iterator_is_source :
  (* next *)
  (forall t E itemp ss, rk E = rty_kind t ->
     run_next t E CURSOR_TABLE READER_IMPLS es_model (itemp E) NEXT_BODY ss = next_outcome E itemp ss (stream_next E itemp ss)) /\
  (* set_failed / should_early_return_if_failed of IoRead, SliceRead, StrRead, &mut R *)
  (forall t E ss, rk E = rty_kind t ->
     run_set_failed READER_IMPLS t (ss_st ss) (ss_failed ss) = Ok (ss_st (set_failed E ss), ss_failed (set_failed E ss))
     /\ ss_off (set_failed E ss) = ss_off ss) /\
  (forall t E, rk E = rty_kind t -> early_of READER_IMPLS t = Some (is_io E)) /\
  (forall r s f, run_set_failed READER_IMPLS (TyMutRef r) s f = run_set_failed READER_IMPLS r s f) /\
  (forall r, early_of READER_IMPLS (TyMutRef r) = early_of READER_IMPLS r) /\
  (* StreamDeserializer::new, Deserializer::into_iter, byte_offset; in every build *)
  (forall B r, run_ctor B CTOR_TABLE "StreamDeserializer::new" [CvReader r]
               = Ok (stream_val B (mkDeser r [] DEPTH0 false false) (rd_off r) false)) /\
  (forall input, sstate_of (mkDeser (fresh_reader input) [] DEPTH0 false false) 0 false = stream_init input) /\
  (forall B d, run_ctor B CTOR_TABLE "Deserializer::into_iter" [deser_val B d] = Ok (stream_val B d (rd_off (d_read d)) false)) /\
  (forall B d offset failed, run_ctor B CTOR_TABLE "StreamDeserializer::byte_offset" [stream_val B d offset failed] = Ok (CvUsize offset)) /\
  (* FusedIterator *)
  (FUSED_BOUND = true /\ FUSED_READERS = ["SliceRead"; "StrRead"]).
Proof. exact (@StreamSrc.stream_iterator_is_translated_source). Qed.
Print Assumptions C12_stream_iterator_is_source.

