(* Properties/C09.v — String, slice and reader inputs give identical outcomes (model level).
   Only pinned statements: each is closed by `exact` of a lemma proved in Proofs/. *)
From SJ Require Import Base.Bytes Base.FloatB Gen.Tables Model.Read Model.Str Model.Num Model.Value Model.De Model.Ignore Model.Stream.
From SJ Require Import Proofs.StrRefine Proofs.RkIndep.
From SJ Require Import Model.Ty Model.DeTyped Proofs.TypedRk Proofs.StrSource.
From SJ Require Import Base.Utf8.

Definition Eio (cf : cfg) : env := mkEnv RIo TEof cf.
Definition Esl (cf : cfg) : env := mkEnv RSlice TEof cf.

(* the two separately written string scanners (byte-wise for io::Read, chunk-wise for slices) agree on
   contents, final cursor, error code and error index, for every input and every start state *)
Theorem C09_parse_str : forall cf s,
  StrRefine.drop_flag (parse_str (Eio cf) s) = StrRefine.drop_flag (parse_str (Esl cf) s).
Proof. exact parse_str_io_slice. Qed.
Theorem C09_parse_str_raw : forall cf s,
  StrRefine.drop_flag (parse_str_raw (Eio cf) s) = StrRefine.drop_flag (parse_str_raw (Esl cf) s).
Proof. exact parse_str_raw_io_slice. Qed.
Theorem C09_ignore_str : forall cf s, ignore_str (Eio cf) s = ignore_str (Esl cf) s.
Proof. exact ignore_str_io_slice. Qed.

(* Value target: equal values, or errors with the same code at the same byte index (hence line and column) *)
Theorem C09_value : forall cf bs, from_input (Eio cf) bs = from_input (Esl cf) bs.
Proof. intros cf bs. apply from_input_rk; intros; first [apply parse_str_io_slice | apply ignore_str_io_slice]. Qed.
(* ignored content *)
Theorem C09_ignored : forall cf bs, ignored_from_input (Eio cf) bs = ignored_from_input (Esl cf) bs.
Proof. intros cf bs. apply ignored_from_input_rk; intros; first [apply parse_str_io_slice | apply ignore_str_io_slice]. Qed.
(* raw capture: same span *)
Theorem C09_raw : forall cf s, raw_value (Eio cf) s = raw_value (Esl cf) s.
Proof. intros cf s. apply raw_value_rk; intros; first [apply parse_str_io_slice | apply ignore_str_io_slice]. Qed.
(* stream iteration, item by item including byte_offset(), for Value and ignored items *)
Theorem C09_stream : forall cf n itemp bs, (itemp = value_item \/ itemp = ignored_item) ->
  stream_run n (Eio cf) itemp (stream_init bs) = stream_run n (Esl cf) itemp (stream_init bs).
Proof. intros cf n itemp bs H. apply stream_run_rk_init; intros; first [apply parse_str_io_slice | apply ignore_str_io_slice | exact H]. Qed.

(* &str source vs slice source: identical on valid UTF-8 input (the hypothesis cannot be dropped: StrRead trusts its input) *)
Theorem C09_str_slice : forall cf bs, utf8_valid bs = true ->
  from_input (mkEnv RStr TEof cf) bs = from_input (mkEnv RSlice TEof cf) bs.
Proof. exact from_input_str_slice. Qed.
Theorem C09_str_slice_ignored : forall cf bs, utf8_valid bs = true ->
  ignored_from_input (mkEnv RStr TEof cf) bs = ignored_from_input (mkEnv RSlice TEof cf) bs.
Proof. exact ignored_from_input_str_slice. Qed.
Theorem C09_str_slice_raw : forall cf s, utf8_valid (rest s) = true ->
  raw_value (mkEnv RStr TEof cf) s = raw_value (mkEnv RSlice TEof cf) s.
Proof. exact raw_value_str_slice. Qed.
Theorem C09_str_slice_stream : forall cf n itemp bs, (itemp = value_item \/ itemp = ignored_item) -> utf8_valid bs = true ->
  stream_run n (mkEnv RStr TEof cf) itemp (stream_init bs) = stream_run n (mkEnv RSlice TEof cf) itemp (stream_init bs).
Proof. exact stream_run_str_slice. Qed.

(* typed targets (universal seed; owned types — a reader cannot lend, so &str targets and the Borrowed/Copied flag are erased by [unb]):
   equal values and final cursors, or errors with the same code whose index differs by at most one byte (the reader may count a byte it
   has only peeked), and only for the codes in [may_shift]; Eof-category errors never shift *)
Theorem C09_typed : forall cf t bs, owned_ty t = true ->
  tclose unb (from_input_typed (TypedRk.Eio cf) t bs) (from_input_typed (TypedRk.Esl cf) t bs).
Proof. exact from_input_typed_rk_strong. Qed.
Theorem C09_typed_eof_same_position : forall cf t bs c i, owned_ty t = true ->
  from_input_typed (TypedRk.Esl cf) t bs = TErr c i -> category c = CatEof -> from_input_typed (TypedRk.Eio cf) t bs = TErr c i.
Proof. exact from_input_typed_rk_eof. Qed.
Theorem C09_typed_shifting_codes_not_eof : forall c, may_shift c = true -> category c <> CatEof.
Proof. exact may_shift_not_eof. Qed.

(* non-vacuity: an input on which both sides produce a positioned error, and one on which they produce a value *)
Example C09_example_err : from_input (Eio (mkCfg false false false false)) [91; 49; 101; 57; 57; 57; 10; 93]
                         = Err NumberOutOfRange 7.
Proof. vm_compute. reflexivity. Qed.

Print Assumptions C09_parse_str.
Print Assumptions C09_value.
Print Assumptions C09_ignored.
Print Assumptions C09_raw.
Print Assumptions C09_stream.
Print Assumptions C09_typed.
Print Assumptions C09_str_slice.

(* ---- line / column bookkeeping of the two reader families, INSIDE the model (Model/Pos.v: LineColIterator + IoRead's peek slot;
        SliceRead::position_of_index with memrchr / memchr_iter) — both equal the specification function pos_of, and agree with the
        abstract cursor's error indices after every admissible sequence of next / peek / discard. *)
From SJ Require Import Model.Pos Proofs.PosRefine.
Theorem C09_slice_position_of_index : forall input i,
  (i <= length input)%nat -> position_of_index input i = pos_of input i.
Proof. exact slice_position_of_index_spec. Qed.
Print Assumptions C09_slice_position_of_index.

Theorem C09_linecol_iterator : forall input t k,
  let s := lci_run t k (lci_new input) in
  lc_src s = skipn k input /\
  (lci_line s, lci_col s) = pos_of input k /\
  lci_byte_offset s = N.of_nat (Nat.min k (length input)).
Proof. exact lci_run_inv. Qed.
Print Assumptions C09_linecol_iterator.

Theorem C09_io_reader_lockstep : forall input E ops,
  is_io E = true -> ops_ok E ops (init_st input) = true ->
  io_run (tm E) ops (io_new input) = abs_run input E ops (init_st input).
Proof. exact io_lockstep. Qed.
Print Assumptions C09_io_reader_lockstep.

Theorem C09_slice_reader_lockstep : forall input E ops,
  is_io E = false -> tm E = TEof -> ops_ok E ops (init_st input) = true ->
  sl_run ops (sl_new input) = abs_run input E ops (init_st input).
Proof. exact slice_lockstep. Qed.
Print Assumptions C09_slice_reader_lockstep.

Theorem C09_positions : forall input E ops,
  (is_io E = false -> tm E = TEof) ->
  ops_ok E ops (init_st input) = true ->
  let s := abs_final E ops (init_st input) in
  conc_byte_offset E input ops = N.of_nat (off s) /\
  (forall (A : Type) c c' i, @error A E s c = Err c' i -> conc_position E input ops = Ok (pos_of input i)) /\
  (forall (A : Type) c c' i, @peek_error A E s c = Err c' i -> conc_peek_position E input ops = Ok (pos_of input i)).
Proof. exact C09_positions_agree. Qed.
Print Assumptions C09_positions.

(* ---- custom (data) errors: error.rs make_error / parse_line_col / Display / fix_position (Model/ErrMsg.v, Proofs/ErrMsgProps.v): an error passed through
        de::Error::custom(err.to_string()) keeps message and position; a custom message is positioned from its OWN text exactly when it ends in
        ' at line L column C' (digits), and is then left alone by the deserializer; serde's own messages (input-dependent text before ', expected') never are ---- *)
From Coq Require Import List NArith ZArith Bool Arith Lia ZifyBool ZifyNat ZifyN.
From SJ Require Import Base.Bytes Base.Utf8 Model.Num Model.ErrMsg Proofs.Utf8Lemmas.
From SJ Require Import Proofs.ErrMsgProps.
Theorem C09_custom_no_panic : forall s, utf8_valid s = true -> parse_line_col_chk s = Ok (parse_line_col s).
Proof. exact (@ErrMsgProps.parse_line_col_chk_no_panic). Qed.
Print Assumptions C09_custom_no_panic.

Theorem C09_custom_position_iff : forall s l c m',
  parse_line_col s = Some (l, c, m') <->
  exists dl dc, s = m' ++ MARK ++ dl ++ COLM ++ dc
                /\ digits dl /\ dl <> [] /\ dval dl = l /\ l <= usize_max
                /\ digits dc /\ dc <> [] /\ dval dc = c /\ c <= usize_max.
Proof. exact (@ErrMsgProps.parse_line_col_iff). Qed.
Print Assumptions C09_custom_position_iff.

Theorem C09_custom_display_roundtrip : forall m l c, 1 <= l -> l <= usize_max -> c <= usize_max ->
  parse_line_col (display (mkError m l c)) = Some (l, c, m).
Proof. exact (@ErrMsgProps.display_parse_roundtrip). Qed.
Print Assumptions C09_custom_display_roundtrip.

Theorem C09_custom_position_from_text : forall m dl dc (f : bytes -> error),
  digits dl -> dl <> [] -> dval dl <= usize_max -> digits dc -> dc <> [] -> dval dc <= usize_max ->
  let e := make_error (m ++ MARK ++ dl ++ COLM ++ dc) in
  e = mkError m (dval dl) (dval dc)
  /\ (1 <= dval dl -> fix_position e f = mkError m (dval dl) (dval dc))
  /\ (dval dl = 0 -> fix_position e f = f m).
Proof. exact (@ErrMsgProps.custom_position_from_text). Qed.
Print Assumptions C09_custom_position_from_text.

Theorem C09_custom_unpositioned : forall s f, parse_line_col s = None -> fix_position (make_error s) f = f s.
Proof. exact (@ErrMsgProps.custom_unpositioned). Qed.
Print Assumptions C09_custom_unpositioned.

Theorem C09_serde_messages_unpositioned : forall pre E, parse_line_col (32 :: E) = None ->
  make_error (pre ++ EXPECTED ++ E) = mkError (pre ++ EXPECTED ++ E) 0 0.
Proof. exact (@ErrMsgProps.serde_expected_unpositioned). Qed.
Print Assumptions C09_serde_messages_unpositioned.

