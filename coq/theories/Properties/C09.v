(* Properties/C09.v — String, slice and reader inputs give identical outcomes (model level).
   Only pinned statements: each is closed by `exact` of a lemma proved in Proofs/. *)
From SJ Require Import Base.Bytes Base.FloatB Gen.Tables Model.Read Model.Str Model.Num Model.Value Model.De Model.Ignore Model.Stream.
From SJ Require Import Proofs.StrRefine Proofs.RkIndep.
From SJ Require Import Model.Ty Model.DeTyped Proofs.TypedRk Proofs.StrSource.
From SJ Require Import Base.Utf8.

Definition Eio (cf : cfg) : env := mkEnv RIo TEof cf.
Definition Esl (cf : cfg) : env := mkEnv RSlice TEof cf.

(* the two separately written string scanners (byte-wise for io::Read, chunk-wise for slices) agree on
   contents, final cursor, error code and error index, for every input and every start state *)
Theorem C09_parse_str : forall cf s,
  StrRefine.drop_flag (parse_str (Eio cf) s) = StrRefine.drop_flag (parse_str (Esl cf) s).
Proof. exact parse_str_io_slice. Qed.
Theorem C09_parse_str_raw : forall cf s,
  StrRefine.drop_flag (parse_str_raw (Eio cf) s) = StrRefine.drop_flag (parse_str_raw (Esl cf) s).
Proof. exact parse_str_raw_io_slice. Qed.
Theorem C09_ignore_str : forall cf s, ignore_str (Eio cf) s = ignore_str (Esl cf) s.
Proof. exact ignore_str_io_slice. Qed.

(* Value target: equal values, or errors with the same code at the same byte index (hence line and column) *)
Theorem C09_value : forall cf bs, from_input (Eio cf) bs = from_input (Esl cf) bs.
Proof. intros cf bs. apply from_input_rk; intros; first [apply parse_str_io_slice | apply ignore_str_io_slice]. Qed.
(* ignored content *)
Theorem C09_ignored : forall cf bs, ignored_from_input (Eio cf) bs = ignored_from_input (Esl cf) bs.
Proof. intros cf bs. apply ignored_from_input_rk; intros; first [apply parse_str_io_slice | apply ignore_str_io_slice]. Qed.
(* raw capture: same span *)
Theorem C09_raw : forall cf s, raw_value (Eio cf) s = raw_value (Esl cf) s.
Proof. intros cf s. apply raw_value_rk; intros; first [apply parse_str_io_slice | apply ignore_str_io_slice]. Qed.
(* stream iteration, item by item including byte_offset(), for Value and ignored items *)
Theorem C09_stream : forall cf n itemp bs, (itemp = value_item \/ itemp = ignored_item) ->
  stream_run n (Eio cf) itemp (stream_init bs) = stream_run n (Esl cf) itemp (stream_init bs).
Proof. intros cf n itemp bs H. apply stream_run_rk_init; intros; first [apply parse_str_io_slice | apply ignore_str_io_slice | exact H]. Qed.

(* &str source vs slice source: identical on valid UTF-8 input (the hypothesis cannot be dropped: StrRead trusts its input) *)
Theorem C09_str_slice : forall cf bs, utf8_valid bs = true ->
  from_input (mkEnv RStr TEof cf) bs = from_input (mkEnv RSlice TEof cf) bs.
Proof. exact from_input_str_slice. Qed.
Theorem C09_str_slice_ignored : forall cf bs, utf8_valid bs = true ->
  ignored_from_input (mkEnv RStr TEof cf) bs = ignored_from_input (mkEnv RSlice TEof cf) bs.
Proof. exact ignored_from_input_str_slice. Qed.
Theorem C09_str_slice_raw : forall cf s, utf8_valid (rest s) = true ->
  raw_value (mkEnv RStr TEof cf) s = raw_value (mkEnv RSlice TEof cf) s.
Proof. exact raw_value_str_slice. Qed.
Theorem C09_str_slice_stream : forall cf n itemp bs, (itemp = value_item \/ itemp = ignored_item) -> utf8_valid bs = true ->
  stream_run n (mkEnv RStr TEof cf) itemp (stream_init bs) = stream_run n (mkEnv RSlice TEof cf) itemp (stream_init bs).
Proof. exact stream_run_str_slice. Qed.

(* typed targets (universal seed; owned types — a reader cannot lend, so &str targets and the Borrowed/Copied flag are erased by [unb]):
   equal values and final cursors, or errors with the same code whose index differs by at most one byte (the reader may count a byte it
   has only peeked), and only for the codes in [may_shift]; Eof-category errors never shift *)
Theorem C09_typed : forall cf t bs, owned_ty t = true ->
  tclose unb (from_input_typed (TypedRk.Eio cf) t bs) (from_input_typed (TypedRk.Esl cf) t bs).
Proof. exact from_input_typed_rk_strong. Qed.
Theorem C09_typed_eof_same_position : forall cf t bs c i, owned_ty t = true ->
  from_input_typed (TypedRk.Esl cf) t bs = TErr c i -> category c = CatEof -> from_input_typed (TypedRk.Eio cf) t bs = TErr c i.
Proof. exact from_input_typed_rk_eof. Qed.
Theorem C09_typed_shifting_codes_not_eof : forall c, may_shift c = true -> category c <> CatEof.
Proof. exact may_shift_not_eof. Qed.

(* non-vacuity: an input on which both sides produce a positioned error, and one on which they produce a value *)
Example C09_example_err : from_input (Eio (mkCfg false false false false)) [91; 49; 101; 57; 57; 57; 10; 93]
                         = Err NumberOutOfRange 7.
Proof. vm_compute. reflexivity. Qed.

Print Assumptions C09_parse_str.
Print Assumptions C09_value.
Print Assumptions C09_ignored.
Print Assumptions C09_raw.
Print Assumptions C09_stream.
Print Assumptions C09_typed.
Print Assumptions C09_str_slice.

(* ---- line / column bookkeeping of the two reader families, INSIDE the model (Model/Pos.v: LineColIterator + IoRead's peek slot;
        SliceRead::position_of_index with memrchr / memchr_iter) — both equal the specification function pos_of, and agree with the
        abstract cursor's error indices after every admissible sequence of next / peek / discard. *)
From SJ Require Import Model.Pos Proofs.PosRefine.
Theorem C09_slice_position_of_index : forall input i,
  (i <= length input)%nat -> position_of_index input i = pos_of input i.
Proof. exact slice_position_of_index_spec. Qed.
Print Assumptions C09_slice_position_of_index.

Theorem C09_linecol_iterator : forall input t k,
  let s := lci_run t k (lci_new input) in
  lc_src s = skipn k input /\
  (lci_line s, lci_col s) = pos_of input k /\
  lci_byte_offset s = N.of_nat (Nat.min k (length input)).
Proof. exact lci_run_inv. Qed.
Print Assumptions C09_linecol_iterator.

Theorem C09_io_reader_lockstep : forall input E ops,
  is_io E = true -> ops_ok E ops (init_st input) = true ->
  io_run (tm E) ops (io_new input) = abs_run input E ops (init_st input).
Proof. exact io_lockstep. Qed.
Print Assumptions C09_io_reader_lockstep.

Theorem C09_slice_reader_lockstep : forall input E ops,
  is_io E = false -> tm E = TEof -> ops_ok E ops (init_st input) = true ->
  sl_run ops (sl_new input) = abs_run input E ops (init_st input).
Proof. exact slice_lockstep. Qed.
Print Assumptions C09_slice_reader_lockstep.

Theorem C09_positions : forall input E ops,
  (is_io E = false -> tm E = TEof) ->
  ops_ok E ops (init_st input) = true ->
  let s := abs_final E ops (init_st input) in
  conc_byte_offset E input ops = N.of_nat (off s) /\
  (forall (A : Type) c c' i, @error A E s c = Err c' i -> conc_position E input ops = Ok (pos_of input i)) /\
  (forall (A : Type) c c' i, @peek_error A E s c = Err c' i -> conc_peek_position E input ops = Ok (pos_of input i)).
Proof. exact C09_positions_agree. Qed.
Print Assumptions C09_positions.

(* ---- custom (data) errors: error.rs make_error / parse_line_col / Display / fix_position (Model/ErrMsg.v, Proofs/ErrMsgProps.v): an error passed through
        de::Error::custom(err.to_string()) keeps message and position; a custom message is positioned from its OWN text exactly when it ends in
        ' at line L column C' (digits), and is then left alone by the deserializer; serde's own messages (input-dependent text before ', expected') never are ---- *)
From Coq Require Import List NArith ZArith Bool Arith Lia ZifyBool ZifyNat ZifyN.
From SJ Require Import Base.Bytes Base.Utf8 Model.Num Model.ErrMsg Proofs.Utf8Lemmas.
From SJ Require Import Proofs.ErrMsgProps.
Theorem C09_custom_no_panic : forall s, utf8_valid s = true -> parse_line_col_chk s = Ok (parse_line_col s).
Proof. exact (@ErrMsgProps.parse_line_col_chk_no_panic). Qed.
Print Assumptions C09_custom_no_panic.

Theorem C09_custom_position_iff : forall s l c m',
  parse_line_col s = Some (l, c, m') <->
  exists dl dc, s = m' ++ MARK ++ dl ++ COLM ++ dc
                /\ digits dl /\ dl <> [] /\ dval dl = l /\ l <= usize_max
                /\ digits dc /\ dc <> [] /\ dval dc = c /\ c <= usize_max.
Proof. exact (@ErrMsgProps.parse_line_col_iff). Qed.
Print Assumptions C09_custom_position_iff.

Theorem C09_custom_display_roundtrip : forall m l c, 1 <= l -> l <= usize_max -> c <= usize_max ->
  parse_line_col (display (mkError m l c)) = Some (l, c, m).
Proof. exact (@ErrMsgProps.display_parse_roundtrip). Qed.
Print Assumptions C09_custom_display_roundtrip.

Theorem C09_custom_position_from_text : forall m dl dc (f : bytes -> error),
  digits dl -> dl <> [] -> dval dl <= usize_max -> digits dc -> dc <> [] -> dval dc <= usize_max ->
  let e := make_error (m ++ MARK ++ dl ++ COLM ++ dc) in
  e = mkError m (dval dl) (dval dc)
  /\ (1 <= dval dl -> fix_position e f = mkError m (dval dl) (dval dc))
  /\ (dval dl = 0 -> fix_position e f = f m).
Proof. exact (@ErrMsgProps.custom_position_from_text). Qed.
Print Assumptions C09_custom_position_from_text.

Theorem C09_custom_unpositioned : forall s f, parse_line_col s = None -> fix_position (make_error s) f = f s.
Proof. exact (@ErrMsgProps.custom_unpositioned). Qed.
Print Assumptions C09_custom_unpositioned.

Theorem C09_serde_messages_unpositioned : forall pre E, parse_line_col (32 :: E) = None ->
  make_error (pre ++ EXPECTED ++ E) = mkError (pre ++ EXPECTED ++ E) 0 0.
Proof. exact (@ErrMsgProps.serde_expected_unpositioned). Qed.
Print Assumptions C09_serde_messages_unpositioned.

From Coq Require Import String.
From SJ Require Import Base.Bytes Model.Read Model.Pos Model.ReadAst Gen.ReadTables.
Require Import Lia ZifyBool ZifyNat ZifyN.
From SJ Require Import Proofs.ReadSrc.
Theorem C09_reader_primitives_are_source : forall B : build,
  let T := READ_TABLE in
  (* iter.rs: LineColIterator *)
  (forall t input, run_static B T "LineColIterator" "new" [VSrc t input] = Ok (lci_val t (lci_new input)))
  /\ (forall t s, run_method B T "LineColIterator" "line" (lci_val t s) [] = Ok (VNum (lci_line s), lci_val t s))
  /\ (forall t s, run_method B T "LineColIterator" "col" (lci_val t s) [] = Ok (VNum (lci_col s), lci_val t s))
  /\ (forall t s, run_method B T "LineColIterator" "byte_offset" (lci_val t s) [] = Ok (VNum (lci_byte_offset s), lci_val t s))
  /\ (forall t s, run_method B T "LineColIterator" "next" (lci_val t s) [] =
                  Ok (item_val (fst (lci_next t s)), lci_val t (snd (lci_next t s))))
  (* read.rs: IoRead *)
  /\ (forall t input, run_static B T "IoRead" "new" [VSrc t input] = Ok (io_val B t None (io_new input)))
  /\ (forall t rb r, run_method B T "IoRead" "next" (io_val B t rb r) [] =
                     Ok (ores_val (fst (io_next t r)), io_val B t (rb_push rb (ret_byte (fst (io_next t r)))) (snd (io_next t r))))
  /\ (forall t rb r, run_method B T "IoRead" "peek" (io_val B t rb r) [] =
                     Ok (ores_val (fst (io_peek t r)), io_val B t rb (snd (io_peek t r))))
  /\ (forall t rb r, run_method B T "IoRead" "discard" (io_val B t rb r) [] =
                     Ok (VUnit, io_val B t (rb_push rb (io_ch r)) (io_discard r)))
  /\ (forall t rb r, run_method B T "IoRead" "position" (io_val B t rb r) [] = Ok (pos_val (io_position r), io_val B t rb r))
  /\ (forall t rb r, run_method B T "IoRead" "peek_position" (io_val B t rb r) [] = Ok (pos_val (io_peek_position r), io_val B t rb r))
  /\ (forall t rb r, run_method B T "IoRead" "byte_offset" (io_val B t rb r) [] = Ok (VNum (io_byte_offset r), io_val B t rb r))
  (* read.rs: SliceRead *)
  /\ (forall input, run_static B T "SliceRead" "new" [VBytes input] = Ok (sl_val B 0 (sl_new input)))
  /\ (forall rbs r i, run_method B T "SliceRead" "position_of_index" (sl_val B rbs r) [VNum (N.of_nat i)] =
                      (let* p := position_of_index_chk (sl_slice r) i in Ok (pos_val p, sl_val B rbs r)))
  /\ (forall rbs r, run_method B T "SliceRead" "next" (sl_val B rbs r) [] =
                    Ok (ores_val (fst (sl_next r)), sl_val B rbs (snd (sl_next r))))
  /\ (forall rbs r, run_method B T "SliceRead" "peek" (sl_val B rbs r) [] =
                    Ok (ores_val (fst (sl_peek r)), sl_val B rbs (snd (sl_peek r))))
  /\ (forall rbs r, run_method B T "SliceRead" "discard" (sl_val B rbs r) [] = Ok (VUnit, sl_val B rbs (sl_discard r)))
  /\ (forall rbs r, run_method B T "SliceRead" "position" (sl_val B rbs r) [] =
                    (let* p := sl_position r in Ok (pos_val p, sl_val B rbs r)))
  /\ (forall rbs r, run_method B T "SliceRead" "peek_position" (sl_val B rbs r) [] =
                    (let* p := sl_peek_position r in Ok (pos_val p, sl_val B rbs r)))
  /\ (forall rbs r, run_method B T "SliceRead" "byte_offset" (sl_val B rbs r) [] =
                    Ok (VNum (N.of_nat (sl_byte_offset r)), sl_val B rbs r))
  (* read.rs: StrRead *)
  /\ (forall input, run_static B T "StrRead" "new" [VBytes input] = Ok (str_val B 0 input (sl_new input)))
  /\ (forall rbs data r, run_method B T "StrRead" "next" (str_val B rbs data r) [] =
                         Ok (ores_val (fst (sl_next r)), str_val B rbs data (snd (sl_next r))))
  /\ (forall rbs data r, run_method B T "StrRead" "peek" (str_val B rbs data r) [] =
                         Ok (ores_val (fst (sl_peek r)), str_val B rbs data (snd (sl_peek r))))
  /\ (forall rbs data r, run_method B T "StrRead" "discard" (str_val B rbs data r) [] = Ok (VUnit, str_val B rbs data (sl_discard r)))
  /\ (forall rbs data r, run_method B T "StrRead" "position" (str_val B rbs data r) [] =
                         (let* p := sl_position r in Ok (pos_val p, str_val B rbs data r)))
  /\ (forall rbs data r, run_method B T "StrRead" "peek_position" (str_val B rbs data r) [] =
                         (let* p := sl_peek_position r in Ok (pos_val p, str_val B rbs data r)))
  /\ (forall rbs data r, run_method B T "StrRead" "byte_offset" (str_val B rbs data r) [] =
                         Ok (VNum (N.of_nat (sl_byte_offset r)), str_val B rbs data r)).
Proof. exact (@ReadSrc.reader_primitives_are_translated_source). Qed.
Print Assumptions C09_reader_primitives_are_source.

Theorem C09_mut_ref_forwards_faithfully : forall e, In e MUT_REF_FORWARD -> fw_target e = fw_name e /\ fw_args e = fw_params e.
Proof. exact (@ReadSrc.mut_ref_forwards_faithfully). Qed.
Print Assumptions C09_mut_ref_forwards_faithfully.

Theorem C09_mut_ref_forwards_every_item : map (fun e => (fw_name e, fw_cfg e, fw_kind e)) MUT_REF_FORWARD = READ_TRAIT_ITEMS.
Proof. exact (@ReadSrc.mut_ref_forwards_every_item). Qed.
Print Assumptions C09_mut_ref_forwards_every_item.

