(* Properties/C09.v — String, slice and reader inputs give identical outcomes (model level).
   Only pinned statements: each is closed by `exact` of a lemma proved in Proofs/. *)
From SJ Require Import Base.Bytes Base.FloatB Gen.Tables Model.Read Model.Str Model.Num Model.Value Model.De Model.Ignore Model.Stream.
From SJ Require Import Proofs.StrRefine Proofs.RkIndep.
From SJ Require Import Model.Ty Model.DeTyped Proofs.TypedRk Proofs.StrSource.
From SJ Require Import Base.Utf8.

Definition Eio (cf : cfg) : env := mkEnv RIo TEof cf.
Definition Esl (cf : cfg) : env := mkEnv RSlice TEof cf.

(* the two separately written string scanners (byte-wise for io::Read, chunk-wise for slices) agree on
   contents, final cursor, error code and error index, for every input and every start state *)
Theorem C09_parse_str : forall cf s,
  StrRefine.drop_flag (parse_str (Eio cf) s) = StrRefine.drop_flag (parse_str (Esl cf) s).
Proof. exact parse_str_io_slice. Qed.
Theorem C09_parse_str_raw : forall cf s,
  StrRefine.drop_flag (parse_str_raw (Eio cf) s) = StrRefine.drop_flag (parse_str_raw (Esl cf) s).
Proof. exact parse_str_raw_io_slice. Qed.
Theorem C09_ignore_str : forall cf s, ignore_str (Eio cf) s = ignore_str (Esl cf) s.
Proof. exact ignore_str_io_slice. Qed.

(* Value target: equal values, or errors with the same code at the same byte index (hence line and column) *)
Theorem C09_value : forall cf bs, from_input (Eio cf) bs = from_input (Esl cf) bs.
Proof. intros cf bs. apply from_input_rk; intros; first [apply parse_str_io_slice | apply ignore_str_io_slice]. Qed.
(* ignored content *)
Theorem C09_ignored : forall cf bs, ignored_from_input (Eio cf) bs = ignored_from_input (Esl cf) bs.
Proof. intros cf bs. apply ignored_from_input_rk; intros; first [apply parse_str_io_slice | apply ignore_str_io_slice]. Qed.
(* raw capture: same span *)
Theorem C09_raw : forall cf s, raw_value (Eio cf) s = raw_value (Esl cf) s.
Proof. intros cf s. apply raw_value_rk; intros; first [apply parse_str_io_slice | apply ignore_str_io_slice]. Qed.
(* stream iteration, item by item including byte_offset(), for Value and ignored items *)
Theorem C09_stream : forall cf n itemp bs, (itemp = value_item \/ itemp = ignored_item) ->
  stream_run n (Eio cf) itemp (stream_init bs) = stream_run n (Esl cf) itemp (stream_init bs).
Proof. intros cf n itemp bs H. apply stream_run_rk_init; intros; first [apply parse_str_io_slice | apply ignore_str_io_slice | exact H]. Qed.

(* &str source vs slice source: identical on valid UTF-8 input (the hypothesis cannot be dropped: StrRead trusts its input) *)
Theorem C09_str_slice : forall cf bs, utf8_valid bs = true ->
  from_input (mkEnv RStr TEof cf) bs = from_input (mkEnv RSlice TEof cf) bs.
Proof. exact from_input_str_slice. Qed.
Theorem C09_str_slice_ignored : forall cf bs, utf8_valid bs = true ->
  ignored_from_input (mkEnv RStr TEof cf) bs = ignored_from_input (mkEnv RSlice TEof cf) bs.
Proof. exact ignored_from_input_str_slice. Qed.
Theorem C09_str_slice_raw : forall cf s, utf8_valid (rest s) = true ->
  raw_value (mkEnv RStr TEof cf) s = raw_value (mkEnv RSlice TEof cf) s.
Proof. exact raw_value_str_slice. Qed.
Theorem C09_str_slice_stream : forall cf n itemp bs, (itemp = value_item \/ itemp = ignored_item) -> utf8_valid bs = true ->
  stream_run n (mkEnv RStr TEof cf) itemp (stream_init bs) = stream_run n (mkEnv RSlice TEof cf) itemp (stream_init bs).
Proof. exact stream_run_str_slice. Qed.

(* typed targets (universal seed; owned types — a reader cannot lend, so &str targets and the Borrowed/Copied flag are erased by [unb]):
   equal values and final cursors, or errors with the same code whose index differs by at most one byte (the reader may count a byte it
   has only peeked), and only for the codes in [may_shift]; Eof-category errors never shift *)
Theorem C09_typed : forall cf t bs, owned_ty t = true ->
  tclose unb (from_input_typed (TypedRk.Eio cf) t bs) (from_input_typed (TypedRk.Esl cf) t bs).
Proof. exact from_input_typed_rk_strong. Qed.
Theorem C09_typed_eof_same_position : forall cf t bs c i, owned_ty t = true ->
  from_input_typed (TypedRk.Esl cf) t bs = TErr c i -> category c = CatEof -> from_input_typed (TypedRk.Eio cf) t bs = TErr c i.
Proof. exact from_input_typed_rk_eof. Qed.
Theorem C09_typed_shifting_codes_not_eof : forall c, may_shift c = true -> category c <> CatEof.
Proof. exact may_shift_not_eof. Qed.

(* non-vacuity: an input on which both sides produce a positioned error, and one on which they produce a value *)
Example C09_example_err : from_input (Eio (mkCfg false false false false)) [91; 49; 101; 57; 57; 57; 10; 93]
                         = Err NumberOutOfRange 7.
Proof. vm_compute. reflexivity. Qed.

Print Assumptions C09_parse_str.
Print Assumptions C09_value.
Print Assumptions C09_ignored.
Print Assumptions C09_raw.
Print Assumptions C09_stream.
Print Assumptions C09_typed.
Print Assumptions C09_str_slice.

(* ---- line / column bookkeeping of the two reader families, INSIDE the model (Model/Pos.v: LineColIterator + IoRead's peek slot;
        SliceRead::position_of_index with memrchr / memchr_iter) — both equal the specification function pos_of, and agree with the
        abstract cursor's error indices after every admissible sequence of next / peek / discard. *)
From SJ Require Import Model.Pos Proofs.PosRefine.
Theorem C09_slice_position_of_index : forall input i,
  (i <= length input)%nat -> position_of_index input i = pos_of input i.
Proof. exact slice_position_of_index_spec. Qed.
Print Assumptions C09_slice_position_of_index.

Theorem C09_linecol_iterator : forall input t k,
  let s := lci_run t k (lci_new input) in
  lc_src s = skipn k input /\
  (lci_line s, lci_col s) = pos_of input k /\
  lci_byte_offset s = N.of_nat (Nat.min k (length input)).
Proof. exact lci_run_inv. Qed.
Print Assumptions C09_linecol_iterator.

Theorem C09_io_reader_lockstep : forall input E ops,
  is_io E = true -> ops_ok E ops (init_st input) = true ->
  io_run (tm E) ops (io_new input) = abs_run input E ops (init_st input).
Proof. exact io_lockstep. Qed.
Print Assumptions C09_io_reader_lockstep.

Theorem C09_slice_reader_lockstep : forall input E ops,
  is_io E = false -> tm E = TEof -> ops_ok E ops (init_st input) = true ->
  sl_run ops (sl_new input) = abs_run input E ops (init_st input).
Proof. exact slice_lockstep. Qed.
Print Assumptions C09_slice_reader_lockstep.

Theorem C09_positions : forall input E ops,
  (is_io E = false -> tm E = TEof) ->
  ops_ok E ops (init_st input) = true ->
  let s := abs_final E ops (init_st input) in
  conc_byte_offset E input ops = N.of_nat (off s) /\
  (forall (A : Type) c c' i, @error A E s c = Err c' i -> conc_position E input ops = Ok (pos_of input i)) /\
  (forall (A : Type) c c' i, @peek_error A E s c = Err c' i -> conc_peek_position E input ops = Ok (pos_of input i)).
Proof. exact C09_positions_agree. Qed.
Print Assumptions C09_positions.

(* ---- custom (data) errors: error.rs make_error / parse_line_col / Display / fix_position (Model/ErrMsg.v, Proofs/ErrMsgProps.v): an error passed through
        de::Error::custom(err.to_string()) keeps message and position; a custom message is positioned from its OWN text exactly when it ends in
        ' at line L column C' (digits), and is then left alone by the deserializer; serde's own messages (input-dependent text before ', expected') never are ---- *)
From Coq Require Import List NArith ZArith Bool Arith Lia ZifyBool ZifyNat ZifyN.
From SJ Require Import Base.Bytes Base.Utf8 Model.Num Model.ErrMsg Proofs.Utf8Lemmas.
From SJ Require Import Proofs.ErrMsgProps.
Theorem C09_custom_no_panic : forall s, utf8_valid s = true -> parse_line_col_chk s = Ok (parse_line_col s).
Proof. exact (@ErrMsgProps.parse_line_col_chk_no_panic). Qed.
Print Assumptions C09_custom_no_panic.

Theorem C09_custom_position_iff : forall s l c m',
  parse_line_col s = Some (l, c, m') <->
  exists dl dc, s = m' ++ MARK ++ dl ++ COLM ++ dc
                /\ digits dl /\ dl <> [] /\ dval dl = l /\ l <= usize_max
                /\ digits dc /\ dc <> [] /\ dval dc = c /\ c <= usize_max.
Proof. exact (@ErrMsgProps.parse_line_col_iff). Qed.
Print Assumptions C09_custom_position_iff.

Theorem C09_custom_display_roundtrip : forall m l c, 1 <= l -> l <= usize_max -> c <= usize_max ->
  parse_line_col (display (mkError m l c)) = Some (l, c, m).
Proof. exact (@ErrMsgProps.display_parse_roundtrip). Qed.
Print Assumptions C09_custom_display_roundtrip.

Theorem C09_custom_position_from_text : forall m dl dc (f : bytes -> error),
  digits dl -> dl <> [] -> dval dl <= usize_max -> digits dc -> dc <> [] -> dval dc <= usize_max ->
  let e := make_error (m ++ MARK ++ dl ++ COLM ++ dc) in
  e = mkError m (dval dl) (dval dc)
  /\ (1 <= dval dl -> fix_position e f = mkError m (dval dl) (dval dc))
  /\ (dval dl = 0 -> fix_position e f = f m).
Proof. exact (@ErrMsgProps.custom_position_from_text). Qed.
Print Assumptions C09_custom_position_from_text.

Theorem C09_custom_unpositioned : forall s f, parse_line_col s = None -> fix_position (make_error s) f = f s.
Proof. exact (@ErrMsgProps.custom_unpositioned). Qed.
Print Assumptions C09_custom_unpositioned.

Theorem C09_serde_messages_unpositioned : forall pre E, parse_line_col (32 :: E) = None ->
  make_error (pre ++ EXPECTED ++ E) = mkError (pre ++ EXPECTED ++ E) 0 0.
Proof. exact (@ErrMsgProps.serde_expected_unpositioned). Qed.
Print Assumptions C09_serde_messages_unpositioned.

From Coq Require Import String.
From SJ Require Import Base.Bytes Model.Read Model.Pos Model.ReadAst Gen.ReadTables.
Require Import Lia ZifyBool ZifyNat ZifyN.
From SJ Require Import Proofs.ReadSrc.
Theorem C09_reader_primitives_are_source : forall B : build,
  let T := READ_TABLE in
  (* iter.rs: LineColIterator *)
  (forall t input, run_static B T "LineColIterator" "new" [VSrc t input] = Ok (lci_val t (lci_new input)))
  /\ (forall t s, run_method B T "LineColIterator" "line" (lci_val t s) [] = Ok (VNum (lci_line s), lci_val t s))
  /\ (forall t s, run_method B T "LineColIterator" "col" (lci_val t s) [] = Ok (VNum (lci_col s), lci_val t s))
  /\ (forall t s, run_method B T "LineColIterator" "byte_offset" (lci_val t s) [] = Ok (VNum (lci_byte_offset s), lci_val t s))
  /\ (forall t s, run_method B T "LineColIterator" "next" (lci_val t s) [] =
                  Ok (item_val (fst (lci_next t s)), lci_val t (snd (lci_next t s))))
  (* read.rs: IoRead *)
  /\ (forall t input, run_static B T "IoRead" "new" [VSrc t input] = Ok (io_val B t None (io_new input)))
  /\ (forall t rb r, run_method B T "IoRead" "next" (io_val B t rb r) [] =
                     Ok (ores_val (fst (io_next t r)), io_val B t (rb_push rb (ret_byte (fst (io_next t r)))) (snd (io_next t r))))
  /\ (forall t rb r, run_method B T "IoRead" "peek" (io_val B t rb r) [] =
                     Ok (ores_val (fst (io_peek t r)), io_val B t rb (snd (io_peek t r))))
  /\ (forall t rb r, run_method B T "IoRead" "discard" (io_val B t rb r) [] =
                     Ok (VUnit, io_val B t (rb_push rb (io_ch r)) (io_discard r)))
  /\ (forall t rb r, run_method B T "IoRead" "position" (io_val B t rb r) [] = Ok (pos_val (io_position r), io_val B t rb r))
  /\ (forall t rb r, run_method B T "IoRead" "peek_position" (io_val B t rb r) [] = Ok (pos_val (io_peek_position r), io_val B t rb r))
  /\ (forall t rb r, run_method B T "IoRead" "byte_offset" (io_val B t rb r) [] = Ok (VNum (io_byte_offset r), io_val B t rb r))
  (* read.rs: SliceRead *)
  /\ (forall input, run_static B T "SliceRead" "new" [VBytes input] = Ok (sl_val B 0 (sl_new input)))
  /\ (forall rbs r i, run_method B T "SliceRead" "position_of_index" (sl_val B rbs r) [VNum (N.of_nat i)] =
                      (let* p := position_of_index_chk (sl_slice r) i in Ok (pos_val p, sl_val B rbs r)))
  /\ (forall rbs r, run_method B T "SliceRead" "next" (sl_val B rbs r) [] =
                    Ok (ores_val (fst (sl_next r)), sl_val B rbs (snd (sl_next r))))
  /\ (forall rbs r, run_method B T "SliceRead" "peek" (sl_val B rbs r) [] =
                    Ok (ores_val (fst (sl_peek r)), sl_val B rbs (snd (sl_peek r))))
  /\ (forall rbs r, run_method B T "SliceRead" "discard" (sl_val B rbs r) [] = Ok (VUnit, sl_val B rbs (sl_discard r)))
  /\ (forall rbs r, run_method B T "SliceRead" "position" (sl_val B rbs r) [] =
                    (let* p := sl_position r in Ok (pos_val p, sl_val B rbs r)))
  /\ (forall rbs r, run_method B T "SliceRead" "peek_position" (sl_val B rbs r) [] =
                    (let* p := sl_peek_position r in Ok (pos_val p, sl_val B rbs r)))
  /\ (forall rbs r, run_method B T "SliceRead" "byte_offset" (sl_val B rbs r) [] =
                    Ok (VNum (N.of_nat (sl_byte_offset r)), sl_val B rbs r))
  (* read.rs: StrRead *)
  /\ (forall input, run_static B T "StrRead" "new" [VBytes input] = Ok (str_val B 0 input (sl_new input)))
  /\ (forall rbs data r, run_method B T "StrRead" "next" (str_val B rbs data r) [] =
                         Ok (ores_val (fst (sl_next r)), str_val B rbs data (snd (sl_next r))))
  /\ (forall rbs data r, run_method B T "StrRead" "peek" (str_val B rbs data r) [] =
                         Ok (ores_val (fst (sl_peek r)), str_val B rbs data (snd (sl_peek r))))
  /\ (forall rbs data r, run_method B T "StrRead" "discard" (str_val B rbs data r) [] = Ok (VUnit, str_val B rbs data (sl_discard r)))
  /\ (forall rbs data r, run_method B T "StrRead" "position" (str_val B rbs data r) [] =
                         (let* p := sl_position r in Ok (pos_val p, str_val B rbs data r)))
  /\ (forall rbs data r, run_method B T "StrRead" "peek_position" (str_val B rbs data r) [] =
                         (let* p := sl_peek_position r in Ok (pos_val p, str_val B rbs data r)))
  /\ (forall rbs data r, run_method B T "StrRead" "byte_offset" (str_val B rbs data r) [] =
                         Ok (VNum (N.of_nat (sl_byte_offset r)), str_val B rbs data r)).
Proof. exact (@ReadSrc.reader_primitives_are_translated_source). Qed.
Print Assumptions C09_reader_primitives_are_source.

Theorem C09_mut_ref_forwards_faithfully : forall e, In e MUT_REF_FORWARD -> fw_target e = fw_name e /\ fw_args e = fw_params e.
Proof. exact (@ReadSrc.mut_ref_forwards_faithfully). Qed.
Print Assumptions C09_mut_ref_forwards_faithfully.

Theorem C09_mut_ref_forwards_every_item : map (fun e => (fw_name e, fw_cfg e, fw_kind e)) MUT_REF_FORWARD = READ_TRAIT_ITEMS.
Proof. exact (@ReadSrc.mut_ref_forwards_every_item). Qed.
Print Assumptions C09_mut_ref_forwards_every_item.

From Coq Require Import String.
From SJ Require Import Base.Bytes Base.Utf8 Gen.Tables Model.Num Model.ErrMsg Model.ErrAst Gen.ErrTables Proofs.ErrMsgProps.
Require Import Lia ZifyBool ZifyNat ZifyN.
From SJ Require Import Proofs.ErrSrc.
Local Open Scope string_scope.
Local Open Scope list_scope.
Local Open Scope N_scope.
Theorem C09_error_api_is_source : forall (ryu : N -> bytes) (clos : nat -> list xval -> res xval) (fuel : nat),
  let run := run_err ryu clos ERR_PROG fuel in
  (* enum ErrorCode / enum Category are Base/Bytes.v ecode / cat *)
  ((forall c, assoc_s (code_name c) ERR_ENUM_ErrorCode = Some (code_arity c)) /\ List.length ERR_ENUM_ErrorCode = 25%nat /\
   (forall k, assoc_s (cat_name k) ERR_ENUM_Category = Some 0%nat) /\ List.length ERR_ENUM_Category = 4%nat) /\
  (* the arms of classify, as a table, are Gen/Tables.v category *)
  ((forall c, assoc_s (code_name c) classify_table = Some (cat_name (category c))) /\ List.length classify_table = 25%nat) /\
  (* classify, the predicates, line / column, io_error_kind, From<Error> for io::Error *)
  (forall c m io line col, (4 <= fuel)%nat ->
     let E := enc_error (enc_code c m io) line col in
     run "Error::classify" [E] = Ok (enc_cat (category c), [E]) /\
     run "Error::is_io" [E] = Ok (VBool (cat_eqb (category c) CatIo), [E]) /\
     run "Error::is_syntax" [E] = Ok (VBool (cat_eqb (category c) CatSyntax), [E]) /\
     run "Error::is_data" [E] = Ok (VBool (cat_eqb (category c) CatData), [E]) /\
     run "Error::is_eof" [E] = Ok (VBool (cat_eqb (category c) CatEof), [E]) /\
     run "Error::line" [E] = Ok (VUsize line, [E]) /\
     run "Error::column" [E] = Ok (VUsize col, [E]) /\
     (is_io_code c = false -> run "Error::io_error_kind" [E] = Ok (v_none, [E])) /\
     (forall k p, is_io_code c = true -> io = VIoError k p -> run "Error::io_error_kind" [E] = Ok (v_some k, [E])) /\
     run "io::Error::from" [E] = Ok (if is_io_code c then io else VIoError (VEnum "ErrorKind" (io_kind_of (category c)) []) E, [E])) /\
  (* Error::syntax, Error::io *)
  (forall code line col io, (1 <= fuel)%nat -> line < USIZE_LIM -> col < USIZE_LIM ->
     run "Error::syntax" [code; VUsize line; VUsize col] = Ok (enc_error code line col, [code; VUsize line; VUsize col]) /\
     run "Error::io" [io] = Ok (enc_error (VEnum "ErrorCode" "Io" [io]) 0 0, [io])) /\
  (* Display: the message of every code; the ` at line L column C` suffix, omitted iff line = 0 (ErrMsg.display) *)
  (forall c m k iot line col buf, (5 <= fuel)%nat ->
     let code := enc_code c m (foreign_io k iot) in
     let e := mkError (code_text c m iot) line col in
     run "ErrorCode::fmt" [code; VFmt buf] = Ok (v_ok v_unit, [code; VFmt (buf ++ code_text c m iot)]) /\
     run "ErrorImpl::fmt" [enc_impl code line col; VFmt buf] = Ok (v_ok v_unit, [enc_impl code line col; VFmt (buf ++ display e)]) /\
     run "Error::fmt" [enc_error code line col; VFmt buf] = Ok (v_ok v_unit, [enc_error code line col; VFmt (buf ++ display e)])) /\
  (* starts_with_digit, parse_line_col, make_error *)
  (forall s, (2 <= fuel)%nat -> run "starts_with_digit" [VStr s] = Ok (VBool (starts_with_digit s), [VStr s])) /\
  (forall msg, rust_string msg -> (List.length msg + 4 <= fuel)%nat ->
     run "parse_line_col" [VStr msg] = enc_plc msg (parse_line_col_chk msg) /\
     run "make_error" [VStr msg] = enc_made (make_error_chk msg) [VStr (match make_error_chk msg with Ok e => e_msg e | _ => [] end)] /\
     (utf8_valid msg = true ->
        run "parse_line_col" [VStr msg] = enc_plc msg (Ok (parse_line_col msg)) /\
        run "make_error" [VStr msg] = Ok (enc_msg_error (make_error msg), [VStr (e_msg (make_error msg))]))) /\
  (* de::Error::custom, ser::Error::custom, invalid_type, invalid_value *)
  ((forall text v, v = VStr text \/ (exists ty, v = VOpaque ty text) -> rust_string text -> (List.length text + 5 <= fuel)%nat ->
      run "de::Error::custom" [v] = enc_made (make_error_chk text) [v] /\
      run "ser::Error::custom" [v] = enc_made (make_error_chk text) [v]) /\
   (forall u et, let text := INVALID_TYPE ++ unexp_text ryu u ++ EXPECTED_S ++ et in
      rust_string text -> (List.length text + 6 <= fuel)%nat ->
      run "de::Error::invalid_type" [enc_unexp u; VOpaque "Expected" et] = enc_made (make_error_chk text) [enc_unexp u; VOpaque "Expected" et]) /\
   (forall u et, let text := INVALID_VALUE ++ unexp_text ryu u ++ EXPECTED_S ++ et in
      rust_string text -> (List.length text + 6 <= fuel)%nat ->
      run "de::Error::invalid_value" [enc_unexp u; VOpaque "Expected" et] = enc_made (make_error_chk text) [enc_unexp u; VOpaque "Expected" et])) /\
  (* Error::fix_position *)
  (forall code line col id, (2 <= fuel)%nat ->
     let E := enc_error code line col in
     run "Error::fix_position" [E; VClosure id] =
       if line =? 0
       then match clos id [code] with Ok r => Ok (r, [E; VClosure id]) | Err c i => Err c i | OutOfFuel => OutOfFuel | Panic => Panic end
       else Ok (E, [E; VClosure id])) /\
  (forall m line col id (g : bytes -> error), (2 <= fuel)%nat ->
     clos id [VEnum "ErrorCode" "Message" [VStr m]] = Ok (enc_msg_error (g m)) ->
     run "Error::fix_position" [enc_msg_error (mkError m line col); VClosure id] =
     Ok (enc_msg_error (fix_position (mkError m line col) g), [enc_msg_error (mkError m line col); VClosure id])) /\
  (* the interpreter's usize::from_str is the model's *)
  (forall s, parse_usize s = usize_from_str s).
Proof. exact (@ErrSrc.error_api_is_translated_source). Qed.
Print Assumptions C09_error_api_is_source.

Theorem C09_classify_is_generated_category :
  (forall c, assoc_s (code_name c) classify_table = Some (cat_name (category c))) /\
  List.length classify_table = 25%nat /\ List.length classify_arms = 25%nat /\
  fbody ERR_Error_classify = [SMatch (EField (EField (EVar "self") "err") "code") classify_arms].
Proof. exact (@ErrSrc.classify_is_generated_category). Qed.
Print Assumptions C09_classify_is_generated_category.

