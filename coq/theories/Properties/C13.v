(* Properties/C13.v — I/O failures of the reader surface as Io errors and never corrupt results (model level, reader half).
   The reader delivers the bytes p and then fails persistently with kind k ([TFail k]); std::io::Bytes (one-byte reads, Interrupted
   retried) is assumed std behaviour.  PARTIAL: OS-level I/O is not modelled; the writer half is in the serializer development. *)
From SJ Require Import Base.Bytes Base.FloatB Gen.Tables Model.Read Model.Str Model.Num Model.Value Model.De Model.Ignore.
From SJ Require Import Proofs.PrefixBase Proofs.Prefix Proofs.PrefixTotal.

(* the injected error surfaces, or the parser had already failed identically before needing the missing byte; never a value *)
Theorem C13_read : forall cf p t k,
  let r_full := from_input (mkEnv RIo TEof cf) (p ++ t) in
  let r_fail := from_input (mkEnv RIo (TFail k) cf) p in
  r_fail = Err (Io k) 0 \/ (r_fail = r_full /\ exists c i, r_full = Err c i).
Proof. exact PrefixTotal.C13_read. Qed.
Theorem C13_read_ignored : forall cf p t k,
  let r_full := ignored_from_input (mkEnv RIo TEof cf) (p ++ t) in
  let r_fail := ignored_from_input (mkEnv RIo (TFail k) cf) p in
  r_fail = Err (Io k) 0 \/ (r_fail = r_full /\ exists c i, r_full = Err c i).
Proof. exact PrefixTotal.C13_read_ignored. Qed.
Theorem C13_never_a_value : forall cf p k v, from_input (mkEnv RIo (TFail k) cf) p <> Ok v.
Proof. exact C13_read_never_ok. Qed.
Theorem C13_never_a_value_ignored : forall cf p k v, ignored_from_input (mkEnv RIo (TFail k) cf) p <> Ok v.
Proof. exact C13_read_never_ok_ignored. Qed.

(* Io errors are classified Io (generated mapping) *)
Theorem C13_io_category : forall k, category (Io k) = CatIo.
Proof. reflexivity. Qed.

Example C13_example : from_input (mkEnv RIo (TFail 3) (mkCfg false false false false)) [91; 49; 44]%N = Err (Io 3) 0.
Proof. vm_compute. reflexivity. Qed.

(* writer half: pinned in Properties/C13w.v (C13_buf_utf8, C13_write_prefix, C13_no_fault) *)
From SJ Require Properties.C13w.

Print Assumptions C13_read.
Print Assumptions C13_read_ignored.
Print Assumptions C13_never_a_value.
