(* Properties/C13.v — I/O failures of the reader surface as Io errors and never corrupt results (model level, reader half).
   The reader delivers the bytes p and then fails persistently with kind k ([TFail k]); std::io::Bytes (one-byte reads, Interrupted
   retried) is assumed std behaviour.  PARTIAL: OS-level I/O is not modelled; the writer half is in the serializer development. *)
From SJ Require Import Base.Bytes Base.FloatB Gen.Tables Model.Read Model.Str Model.Num Model.Value Model.De Model.Ignore.
From SJ Require Import Proofs.PrefixBase Proofs.Prefix Proofs.PrefixTotal.

(* the injected error surfaces, or the parser had already failed identically before needing the missing byte; never a value *)
Theorem C13_read : forall cf p t k,
  let r_full := from_input (mkEnv RIo TEof cf) (p ++ t) in
  let r_fail := from_input (mkEnv RIo (TFail k) cf) p in
  r_fail = Err (Io k) 0 \/ (r_fail = r_full /\ exists c i, r_full = Err c i).
Proof. exact PrefixTotal.C13_read. Qed.
Theorem C13_read_ignored : forall cf p t k,
  let r_full := ignored_from_input (mkEnv RIo TEof cf) (p ++ t) in
  let r_fail := ignored_from_input (mkEnv RIo (TFail k) cf) p in
  r_fail = Err (Io k) 0 \/ (r_fail = r_full /\ exists c i, r_full = Err c i).
Proof. exact PrefixTotal.C13_read_ignored. Qed.
Theorem C13_never_a_value : forall cf p k v, from_input (mkEnv RIo (TFail k) cf) p <> Ok v.
Proof. exact C13_read_never_ok. Qed.
Theorem C13_never_a_value_ignored : forall cf p k v, ignored_from_input (mkEnv RIo (TFail k) cf) p <> Ok v.
Proof. exact C13_read_never_ok_ignored. Qed.

(* Io errors are classified Io (generated mapping) *)
Theorem C13_io_category : forall k, category (Io k) = CatIo.
Proof. reflexivity. Qed.

Example C13_example : from_input (mkEnv RIo (TFail 3) (mkCfg false false false false)) [91; 49; 44]%N = Err (Io 3) 0.
Proof. vm_compute. reflexivity. Qed.

(* writer half: pinned in Properties/C13w.v (C13_buf_utf8, C13_write_prefix, C13_no_fault) *)
From SJ Require Properties.C13w.

Print Assumptions C13_read.
Print Assumptions C13_read_ignored.
Print Assumptions C13_never_a_value.

(* ---- typed targets (Proofs/TypedPrefix*.v): either Io at once, or the same non-Ok outcome as on the full input, or the KNOWN class F18 (a data
   error of the visitor masks the I/O error of the following end_seq/end_map): never a value ---- *)
From SJ Require Import Model.Ty Model.DeTyped.
From SJ Require Import Proofs.TypedPrefixBase.
From SJ Require Proofs.TypedPrefix Proofs.TypedPrefixTotal.
Theorem C13_typed : forall cf t p tl k,
  let r_full := from_input_typed (mkEnv RIo TEof cf) t (p ++ tl) in
  let r_fail := from_input_typed (mkEnv RIo (TFail k) cf) t p in
  r_fail = TErr (Io k) 0
  \/ (r_fail = r_full /\ exists c i, r_full = TErr c i)
  \/ ((exists m i, r_fail = TErr (Message m) i) /\ TypedPrefix.tnotok r_full)      (* known class F18 *)
  \/ ((exists m s, r_fail = TUnpos m s) /\ TypedPrefix.tnotok r_full).              (* F18, error never positioned *)
Proof. exact (@TypedPrefixTotal.C13_typed_full). Qed.
Print Assumptions C13_typed.

Theorem C13_typed_never_ok : forall cf t p k d, from_input_typed (mkEnv RIo (TFail k) cf) t p <> TOk d.
Proof. exact (@TypedPrefix.C13_typed_never_ok). Qed.
Print Assumptions C13_typed_never_ok.

Theorem C13_typed_known_F18_witness :
  from_input_typed (mkEnv RIo (TFail 7) (mkCfg false false false false)) (TSeq (TInt U8)) [91; 51; 48; 48; 44]
  = TErr (Message MInvalidValue) 5.
Proof. exact (@TypedPrefix.C13_typed_known_F18_witness). Qed.
Print Assumptions C13_typed_known_F18_witness.

