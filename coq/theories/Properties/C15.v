(* Properties/C15.v — to_value agrees with the text serialiser. *)
From SJ Require Import Base.Bytes Base.Utf8 Base.FloatB Model.Read Model.Value Model.De Model.Sval Model.Ser Model.ValueSer
  Spec.Syntax Spec.Denote Spec.Layout Proofs.SerToValue Proofs.SerMain.
From SJ Require Import Proofs.SerFinal.

(* side condition [c15_side]: no finite f32 value and no 128-bit integer outside [i64::MIN, u64::MAX] (both only without
   arbitrary_precision: the two documented exceptions), no use of the private Number token protocol *)
Theorem C15_same_success : forall cf fmt32 fmt64 v, ryu_json fmt32 fmt64 -> ryu_reads_back cf fmt64 -> 
  wfs v = true -> c15_side (arbitrary_precision cf) v = true ->
  ((exists j, to_value cf fmt32 fmt64 v = Ok j) <-> (exists bufs, serialize cf fmt32 fmt64 Compact v = Ok bufs)).
Proof. exact C15_same_success_final. Qed.
Print Assumptions C15_same_success.

Theorem C15_same_rejection : forall cf fmt32 fmt64 v, ryu_json fmt32 fmt64 -> ryu_reads_back cf fmt64 -> 
  wfs v = true -> c15_side (arbitrary_precision cf) v = true ->
  ((exists e, to_value cf fmt32 fmt64 v = Err e O /\ (e = KeyMustBeAString \/ e = FloatKeyMustBeFinite))
   <-> (exists e, serialize cf fmt32 fmt64 Compact v = Err e O /\ (e = KeyMustBeAString \/ e = FloatKeyMustBeFinite))).
Proof. exact C15_same_rejection_final. Qed.
Print Assumptions C15_same_rejection.

(* the Value returned by to_value is the one the text printed by to_string denotes ... *)
Theorem C15_same_value : forall cf fmt32 fmt64 v j bufs, ryu_json fmt32 fmt64 -> ryu_reads_back cf fmt64 -> 
  wfs v = true -> c15_side (arbitrary_precision cf) v = true ->
  to_value cf fmt32 fmt64 v = Ok j -> serialize cf fmt32 fmt64 Compact v = Ok bufs ->
  exists c, concat bufs = render c /\ wfb c = true /\ denote cf c = Some j.
Proof. exact C15_same_value_final. Qed.
Print Assumptions C15_same_value.

(* ... i.e. the Value obtained by parsing to_string(t) (parser completeness as a hypothesis; nesting within the parser's limit) *)
Theorem C15_parse_back : forall cf fmt32 fmt64 v j bufs, ryu_json fmt32 fmt64 -> ryu_reads_back cf fmt64 -> 
   wfs v = true -> c15_side (arbitrary_precision cf) v = true ->
  to_value cf fmt32 fmt64 v = Ok j -> serialize cf fmt32 fmt64 Compact v = Ok bufs ->
  (forall c, concat bufs = render c -> limit_disabled cf = false -> (cdepth c <= 127)%nat) ->
  from_input (mkEnv RSlice TEof cf) (concat bufs) = Ok j.
Proof. exact C15_parse_back_final. Qed.
Print Assumptions C15_parse_back.

(* the two exceptions are real *)
Example C15_f32_is_widened :
  to_value (mkCfg false true false false) (fun _ => [48; 46; 49]) (fun _ => []) (SF32 1036831949)
  = Ok (VNum (NFloat (b64_of_b32 (f32_of_bits 1036831949)))).
Proof. exact C15_exception_f32. Qed.
Example C15_i128_out_of_range :
  to_value (mkCfg false true false false) (fun _ => []) (fun _ => []) (SInt I128 18446744073709551616) = Err NumberOutOfRange O
  /\ exists b, serialize (mkCfg false true false false) (fun _ => []) (fun _ => []) Compact (SInt I128 18446744073709551616) = Ok b.
Proof. exact C15_exception_i128. Qed.

(* the hypotheses hold on instances (evaluation of the parser model on ryu texts "1.5", "1e16", and of a literal under arbitrary_precision) *)
Example C15_reads_back_instance :
  float_bits_of (num_image (mkCfg false true false false) [49; 46; 53]) = Some 4609434218613702656%N
  /\ float_bits_of (Some (VNum (NFloat (f64_of_bits 4609434218613702656)))) = Some 4609434218613702656%N
  /\ float_bits_of (num_image (mkCfg false false false false) [49; 101; 49; 54]) = Some 4846369599423283200%N.
Proof. exact ryu_reads_back_instance. Qed.
Example C15_literal_kept_instance :
  num_image (mkCfg false false true false) [45; 48; 46; 53; 48]%N = Some (VNum (NLit [45; 48; 46; 53; 48]%N)).
Proof. exact literal_kept_instance. Qed.

(* ---- arbitrary_precision: the private Number protocol node (SNumLit) included — Proofs/SerToValueAp.v ---- *)
From SJ Require Import Base.Bytes Base.Utf8 Base.FloatB Gen.Tables Model.Read Model.Num Model.Value Model.De Model.Sval Model.Ser Model.ValueSer
  Spec.Syntax Spec.Denote Spec.Layout
  Proofs.NumInt Proofs.GrammarNum Proofs.GrammarFinal Proofs.ApNumber
  Proofs.SerUtf8 Proofs.SerBase Proofs.SerHint Proofs.SerRender Proofs.SerWf Proofs.SerDenote Proofs.SerValue Proofs.SerToValue
  Proofs.SerWriter Proofs.SerMain Proofs.SerFinal.
From Flocq Require Import Core BinarySingleNaN.
From Coq Require Import Lia ZifyBool ZifyN ZifyNat.
From SJ Require Import Proofs.SerToValueAp.
Theorem C15_ap_same_success : forall cf fmt32 fmt64 v, arbitrary_precision cf = true -> ryu_json fmt32 fmt64 ->
  wfs v = true ->
  ((exists j, to_value cf fmt32 fmt64 v = Ok j) <-> (exists bufs, serialize cf fmt32 fmt64 Compact v = Ok bufs)).
Proof. exact SerToValueAp.C15_ap_same_success. Qed.
Print Assumptions C15_ap_same_success.

Theorem C15_ap_same_rejection : forall cf fmt32 fmt64 v, arbitrary_precision cf = true -> ryu_json fmt32 fmt64 ->
  wfs v = true ->
  ((exists e, to_value cf fmt32 fmt64 v = Err e O /\ (e = KeyMustBeAString \/ e = FloatKeyMustBeFinite))
   <-> (exists e, serialize cf fmt32 fmt64 Compact v = Err e O /\ (e = KeyMustBeAString \/ e = FloatKeyMustBeFinite))).
Proof. exact SerToValueAp.C15_ap_same_rejection. Qed.
Print Assumptions C15_ap_same_rejection.

Theorem C15_ap_same_value : forall cf fmt32 fmt64 v j bufs, arbitrary_precision cf = true -> ryu_json fmt32 fmt64 ->
  wfs v = true ->
  to_value cf fmt32 fmt64 v = Ok j -> serialize cf fmt32 fmt64 Compact v = Ok bufs ->
  exists c, concat bufs = render c /\ wfb c = true /\ denote cf c = Some j.
Proof. exact SerToValueAp.C15_ap_same_value. Qed.
Print Assumptions C15_ap_same_value.

Theorem C15_ap_parse_back : forall cf fmt32 fmt64 v j bufs, arbitrary_precision cf = true -> ryu_json fmt32 fmt64 ->
  wfs v = true ->
  to_value cf fmt32 fmt64 v = Ok j -> serialize cf fmt32 fmt64 Compact v = Ok bufs ->
  (forall c, concat bufs = render c -> limit_disabled cf = false -> (cdepth c <= 127)%nat) ->
  from_input (mkEnv RSlice TEof cf) (concat bufs) = Ok j.
Proof. exact SerToValueAp.C15_ap_parse_back. Qed.
Print Assumptions C15_ap_parse_back.

Theorem C15_numlit_verbatim : forall cf fmt32 fmt64 l, arbitrary_precision cf = true -> number_text_ok l = true ->
  serialize cf fmt32 fmt64 Compact (SNumLit l) = Ok [l]
  /\ to_value cf fmt32 fmt64 (SNumLit l) = Ok (VNum (NLit l))
  /\ from_input (mkEnv RSlice TEof cf) l = Ok (VNum (NLit l)).
Proof. exact SerToValueAp.C15_numlit_verbatim. Qed.
Print Assumptions C15_numlit_verbatim.

Theorem C15_value_with_numbers : forall cf fmt32 fmt64 v, arbitrary_precision cf = true -> ryu_json fmt32 fmt64 ->
  wf_value cf v = true ->
  to_value cf fmt32 fmt64 (sval_of_value v) = Ok v
  /\ exists bufs c, serialize cf fmt32 fmt64 Compact (sval_of_value v) = Ok bufs /\ concat bufs = render c /\ denote cf c = Some v
     /\ ((limit_disabled cf = false -> (cdepth c <= 127)%nat) -> from_input (mkEnv RSlice TEof cf) (concat bufs) = Ok v).
Proof. exact SerToValueAp.C15_value_with_numbers. Qed.
Print Assumptions C15_value_with_numbers.

Theorem C15_number_text_ok_iff : forall l,
  number_text_ok l = true <-> exists n, num_ok n = true /\ l = render_num n.
Proof. exact SerToValueAp.number_text_ok_iff. Qed.
Print Assumptions C15_number_text_ok_iff.


(* ---- both map-key serializers, method by method, from the sources as TRANSLATED ON THIS RUN (tools/translate_keys.py -> Gen/KeyTables.v):
        the two classify every Serializer method identically (the theorem form of finding F5), and the models are the tables' meaning ---- *)
From SJ Require Import Base.Bytes Base.Utf8 Model.Read Model.Num Model.Sval Model.Ser Model.ValueSer Model.KeyAst Gen.KeyTables.
From SJ Require Import Proofs.SerKeys.
Theorem C15_key_serializers_agree_by_method : forall m, klookup KEY_TEXT m = klookup KEY_VALUE m /\ klookup KEY_TEXT m <> None.
Proof. exact SerKeys.key_tables_agree. Qed.
Print Assumptions C15_key_serializers_agree_by_method.

Theorem C15_value_key_serializer_is_source : forall fmt32 fmt64 k,
  key_string fmt32 fmt64 k = value_meaning fmt32 fmt64 (key_string fmt32 fmt64) (klookup KEY_VALUE (method_of k)) k.
Proof. exact SerKeys.key_string_is_table. Qed.
Print Assumptions C15_value_key_serializer_is_source.

Theorem C15_text_key_serializer_is_source : forall fmt32 fmt64 k,
  key_ser fmt32 fmt64 k = text_meaning fmt32 fmt64 (key_ser fmt32 fmt64) (klookup KEY_TEXT (method_of k)) k.
Proof. exact SerKeys.key_ser_is_table. Qed.
Print Assumptions C15_text_key_serializer_is_source.

Theorem C15_same_methods_rejected : forall m,
  klookup KEY_TEXT m = Some KReject <-> klookup KEY_VALUE m = Some KReject.
Proof. exact SerKeys.key_rejection_same_methods. Qed.
Print Assumptions C15_same_methods_rejected.

