(* Properties/C15.v — to_value agrees with the text serialiser. *)
From SJ Require Import Base.Bytes Base.Utf8 Base.FloatB Model.Read Model.Value Model.De Model.Sval Model.Ser Model.ValueSer
  Spec.Syntax Spec.Denote Spec.Layout Proofs.SerToValue Proofs.SerMain.
From SJ Require Import Proofs.SerFinal.

(* side condition [c15_side]: no finite f32 value and no 128-bit integer outside [i64::MIN, u64::MAX] (both only without
   arbitrary_precision: the two documented exceptions), no use of the private Number token protocol *)
Theorem C15_same_success : forall cf fmt32 fmt64 v, ryu_json fmt32 fmt64 -> ryu_reads_back cf fmt64 -> 
  wfs v = true -> c15_side (arbitrary_precision cf) v = true ->
  ((exists j, to_value cf fmt32 fmt64 v = Ok j) <-> (exists bufs, serialize cf fmt32 fmt64 Compact v = Ok bufs)).
Proof. exact C15_same_success_final. Qed.
Print Assumptions C15_same_success.

Theorem C15_same_rejection : forall cf fmt32 fmt64 v, ryu_json fmt32 fmt64 -> ryu_reads_back cf fmt64 -> 
  wfs v = true -> c15_side (arbitrary_precision cf) v = true ->
  ((exists e, to_value cf fmt32 fmt64 v = Err e O /\ (e = KeyMustBeAString \/ e = FloatKeyMustBeFinite))
   <-> (exists e, serialize cf fmt32 fmt64 Compact v = Err e O /\ (e = KeyMustBeAString \/ e = FloatKeyMustBeFinite))).
Proof. exact C15_same_rejection_final. Qed.
Print Assumptions C15_same_rejection.

(* the Value returned by to_value is the one the text printed by to_string denotes ... *)
Theorem C15_same_value : forall cf fmt32 fmt64 v j bufs, ryu_json fmt32 fmt64 -> ryu_reads_back cf fmt64 -> 
  wfs v = true -> c15_side (arbitrary_precision cf) v = true ->
  to_value cf fmt32 fmt64 v = Ok j -> serialize cf fmt32 fmt64 Compact v = Ok bufs ->
  exists c, concat bufs = render c /\ wfb c = true /\ denote cf c = Some j.
Proof. exact C15_same_value_final. Qed.
Print Assumptions C15_same_value.

(* ... i.e. the Value obtained by parsing to_string(t) (parser completeness as a hypothesis; nesting within the parser's limit) *)
Theorem C15_parse_back : forall cf fmt32 fmt64 v j bufs, ryu_json fmt32 fmt64 -> ryu_reads_back cf fmt64 -> 
   wfs v = true -> c15_side (arbitrary_precision cf) v = true ->
  to_value cf fmt32 fmt64 v = Ok j -> serialize cf fmt32 fmt64 Compact v = Ok bufs ->
  (forall c, concat bufs = render c -> limit_disabled cf = false -> (cdepth c <= 127)%nat) ->
  from_input (mkEnv RSlice TEof cf) (concat bufs) = Ok j.
Proof. exact C15_parse_back_final. Qed.
Print Assumptions C15_parse_back.

(* the two exceptions are real *)
Example C15_f32_is_widened :
  to_value (mkCfg false true false false) (fun _ => [48; 46; 49]) (fun _ => []) (SF32 1036831949)
  = Ok (VNum (NFloat (b64_of_b32 (f32_of_bits 1036831949)))).
Proof. exact C15_exception_f32. Qed.
Example C15_i128_out_of_range :
  to_value (mkCfg false true false false) (fun _ => []) (fun _ => []) (SInt I128 18446744073709551616) = Err NumberOutOfRange O
  /\ exists b, serialize (mkCfg false true false false) (fun _ => []) (fun _ => []) Compact (SInt I128 18446744073709551616) = Ok b.
Proof. exact C15_exception_i128. Qed.

(* the hypotheses hold on instances (evaluation of the parser model on ryu texts "1.5", "1e16", and of a literal under arbitrary_precision) *)
Example C15_reads_back_instance :
  float_bits_of (num_image (mkCfg false true false false) [49; 46; 53]) = Some 4609434218613702656%N
  /\ float_bits_of (Some (VNum (NFloat (f64_of_bits 4609434218613702656)))) = Some 4609434218613702656%N
  /\ float_bits_of (num_image (mkCfg false false false false) [49; 101; 49; 54]) = Some 4846369599423283200%N.
Proof. exact ryu_reads_back_instance. Qed.
Example C15_literal_kept_instance :
  num_image (mkCfg false false true false) [45; 48; 46; 53; 48]%N = Some (VNum (NLit [45; 48; 46; 53; 48]%N)).
Proof. exact literal_kept_instance. Qed.

(* ---- arbitrary_precision: the private Number protocol node (SNumLit) included — Proofs/SerToValueAp.v ---- *)
From SJ Require Import Base.Bytes Base.Utf8 Base.FloatB Gen.Tables Model.Read Model.Num Model.Value Model.De Model.Sval Model.Ser Model.ValueSer
  Spec.Syntax Spec.Denote Spec.Layout
  Proofs.NumInt Proofs.GrammarNum Proofs.GrammarFinal Proofs.ApNumber
  Proofs.SerUtf8 Proofs.SerBase Proofs.SerHint Proofs.SerRender Proofs.SerWf Proofs.SerDenote Proofs.SerValue Proofs.SerToValue
  Proofs.SerWriter Proofs.SerMain Proofs.SerFinal.
From Flocq Require Import Core BinarySingleNaN.
From Coq Require Import Lia ZifyBool ZifyN ZifyNat.
From SJ Require Import Proofs.SerToValueAp.
Theorem C15_ap_same_success : forall cf fmt32 fmt64 v, arbitrary_precision cf = true -> ryu_json fmt32 fmt64 ->
  wfs v = true ->
  ((exists j, to_value cf fmt32 fmt64 v = Ok j) <-> (exists bufs, serialize cf fmt32 fmt64 Compact v = Ok bufs)).
Proof. exact SerToValueAp.C15_ap_same_success. Qed.
Print Assumptions C15_ap_same_success.

Theorem C15_ap_same_rejection : forall cf fmt32 fmt64 v, arbitrary_precision cf = true -> ryu_json fmt32 fmt64 ->
  wfs v = true ->
  ((exists e, to_value cf fmt32 fmt64 v = Err e O /\ (e = KeyMustBeAString \/ e = FloatKeyMustBeFinite))
   <-> (exists e, serialize cf fmt32 fmt64 Compact v = Err e O /\ (e = KeyMustBeAString \/ e = FloatKeyMustBeFinite))).
Proof. exact SerToValueAp.C15_ap_same_rejection. Qed.
Print Assumptions C15_ap_same_rejection.

Theorem C15_ap_same_value : forall cf fmt32 fmt64 v j bufs, arbitrary_precision cf = true -> ryu_json fmt32 fmt64 ->
  wfs v = true ->
  to_value cf fmt32 fmt64 v = Ok j -> serialize cf fmt32 fmt64 Compact v = Ok bufs ->
  exists c, concat bufs = render c /\ wfb c = true /\ denote cf c = Some j.
Proof. exact SerToValueAp.C15_ap_same_value. Qed.
Print Assumptions C15_ap_same_value.

Theorem C15_ap_parse_back : forall cf fmt32 fmt64 v j bufs, arbitrary_precision cf = true -> ryu_json fmt32 fmt64 ->
  wfs v = true ->
  to_value cf fmt32 fmt64 v = Ok j -> serialize cf fmt32 fmt64 Compact v = Ok bufs ->
  (forall c, concat bufs = render c -> limit_disabled cf = false -> (cdepth c <= 127)%nat) ->
  from_input (mkEnv RSlice TEof cf) (concat bufs) = Ok j.
Proof. exact SerToValueAp.C15_ap_parse_back. Qed.
Print Assumptions C15_ap_parse_back.

Theorem C15_numlit_verbatim : forall cf fmt32 fmt64 l, arbitrary_precision cf = true -> number_text_ok l = true ->
  serialize cf fmt32 fmt64 Compact (SNumLit l) = Ok [l]
  /\ to_value cf fmt32 fmt64 (SNumLit l) = Ok (VNum (NLit l))
  /\ from_input (mkEnv RSlice TEof cf) l = Ok (VNum (NLit l)).
Proof. exact SerToValueAp.C15_numlit_verbatim. Qed.
Print Assumptions C15_numlit_verbatim.

Theorem C15_value_with_numbers : forall cf fmt32 fmt64 v, arbitrary_precision cf = true -> ryu_json fmt32 fmt64 ->
  wf_value cf v = true ->
  to_value cf fmt32 fmt64 (sval_of_value v) = Ok v
  /\ exists bufs c, serialize cf fmt32 fmt64 Compact (sval_of_value v) = Ok bufs /\ concat bufs = render c /\ denote cf c = Some v
     /\ ((limit_disabled cf = false -> (cdepth c <= 127)%nat) -> from_input (mkEnv RSlice TEof cf) (concat bufs) = Ok v).
Proof. exact SerToValueAp.C15_value_with_numbers. Qed.
Print Assumptions C15_value_with_numbers.

Theorem C15_number_text_ok_iff : forall l,
  number_text_ok l = true <-> exists n, num_ok n = true /\ l = render_num n.
Proof. exact SerToValueAp.number_text_ok_iff. Qed.
Print Assumptions C15_number_text_ok_iff.


(* ---- both map-key serializers, method by method, from the sources as TRANSLATED ON THIS RUN (tools/translate_keys.py -> Gen/KeyTables.v):
        the two classify every Serializer method identically (the theorem form of finding F5), and the models are the tables' meaning ---- *)
From SJ Require Import Base.Bytes Base.Utf8 Model.Read Model.Num Model.Sval Model.Ser Model.ValueSer Model.KeyAst Gen.KeyTables.
From SJ Require Import Proofs.SerKeys.
Theorem C15_key_serializers_agree_by_method : forall m, klookup KEY_TEXT m = klookup KEY_VALUE m /\ klookup KEY_TEXT m <> None.
Proof. exact SerKeys.key_tables_agree. Qed.
Print Assumptions C15_key_serializers_agree_by_method.

Theorem C15_value_key_serializer_is_source : forall fmt32 fmt64 k,
  key_string fmt32 fmt64 k = value_meaning fmt32 fmt64 (key_string fmt32 fmt64) (klookup KEY_VALUE (method_of k)) k.
Proof. exact SerKeys.key_string_is_table. Qed.
Print Assumptions C15_value_key_serializer_is_source.

Theorem C15_text_key_serializer_is_source : forall fmt32 fmt64 k,
  key_ser fmt32 fmt64 k = text_meaning fmt32 fmt64 (key_ser fmt32 fmt64) (klookup KEY_TEXT (method_of k)) k.
Proof. exact SerKeys.key_ser_is_table. Qed.
Print Assumptions C15_text_key_serializer_is_source.

Theorem C15_same_methods_rejected : forall m,
  klookup KEY_TEXT m = Some KReject <-> klookup KEY_VALUE m = Some KReject.
Proof. exact SerKeys.key_rejection_same_methods. Qed.
Print Assumptions C15_same_methods_rejected.

From SJ Require Import Base.Bytes Base.Utf8 Model.Read Model.Num Model.Value Model.Sval Model.Ser Model.ValueSer Model.KeyAst Model.SerAst
  Model.VserAst Gen.SerTables Gen.VserTables Proofs.SerSrc.
From Coq Require Import Lia.
From SJ Require Import Proofs.VserSrc.
Theorem C15_to_value_is_source :
  forall (cf : cfg) (raw_value : bool) (fmt32 fmt64 : N -> bytes) (raw_parse : bytes -> res value) (sname : bytes) (v : sval),
  vis_private_token VSER_SOURCE sname = false ->
  to_value cf fmt32 fmt64 v =
  vrun_protocol VSER_SOURCE cf raw_value fmt32 fmt64 (to_value cf fmt32 fmt64) (key_string fmt32 fmt64) raw_parse sname v.
Proof. exact (@VserSrc.to_value_model_is_translated_source). Qed.
Print Assumptions C15_to_value_is_source.

Theorem C15_builders_are_source :
  forall (cf : cfg) (rv : bool) (fmt32 fmt64 : N -> bytes) (rec : sval -> res value) (keyser : sval -> res bytes) (raw_parse : bytes -> res value),
  let STEP := vstep VSER_SOURCE cf rv fmt32 fmt64 rec keyser raw_parse in
  (forall t f e vec, is_vec_elem_method t f ->
     STEP (elem_call t f e) (POpen (BVec vec)) = let* x := rec e in Ok (POpen (BVec (vec ++ [x])))) /\
  (forall t vec, t = TSeq \/ t = TTuple \/ t = TTupleStruct -> STEP (PCall (MComp t Cend) no_args) (POpen (BVec vec)) = Ok (PDone (VArr vec))) /\
  (forall e name vec,
     STEP (elem_call TTupleVariant Cfield e) (POpen (BTupleVariant name vec)) = let* x := rec e in Ok (POpen (BTupleVariant name (vec ++ [x])))) /\
  (forall name vec,
     STEP (PCall (MComp TTupleVariant Cend) no_args) (POpen (BTupleVariant name vec)) = Ok (PDone (VObj (minsert cf name (VArr vec) [])))) /\
  (forall k m nk,
     STEP (PCall (MComp TMap Ckey) (set_arg PKey (ANode k) no_args)) (POpen (BMap m nk)) = let* s := keyser k in Ok (POpen (BMap m (Some s)))) /\
  (forall v m s,
     STEP (PCall (MComp TMap Cvalue) (with_value (ANode v))) (POpen (BMap m (Some s))) = let* x := rec v in Ok (POpen (BMap (minsert cf s x m) None))) /\
  (forall v m, STEP (PCall (MComp TMap Cvalue) (with_value (ANode v))) (POpen (BMap m None)) = Panic) /\
  (forall t m nk, t = TMap \/ t = TStruct -> STEP (PCall (MComp t Cend) no_args) (POpen (BMap m nk)) = Ok (PDone (VObj m))) /\
  (forall k v m nk,
     STEP (field_call TStruct (k, v)) (POpen (BMap m nk)) =
     let* s := keyser (SStr k) in let* x := rec v in Ok (POpen (BMap (minsert cf s x m) None))) /\
  (forall k v name m,
     STEP (field_call TStructVariant (k, v)) (POpen (BStructVariant name m)) = let* x := rec v in Ok (POpen (BStructVariant name (minsert cf k x m)))) /\
  (forall name m,
     STEP (PCall (MComp TStructVariant Cend) no_args) (POpen (BStructVariant name m)) = Ok (PDone (VObj (minsert cf name (VObj m) [])))).
Proof. exact (@VserSrc.builder_methods_are_translated_source). Qed.
Print Assumptions C15_builders_are_source.

Theorem C15_serializers_define_the_same_methods :
  map fst SER_METHODS = map fst VSER_METHODS /\
  map fst SER_NUMBER_EMITTER = map fst VSER_NUMBER_EMITTER /\
  map fst SER_RAW_EMITTER = map fst VSER_RAW_EMITTER /\
  SER_NUMBER_TOKEN = VSER_NUMBER_TOKEN /\ SER_RAW_TOKEN = VSER_RAW_TOKEN.
Proof. exact (@VserSrc.serializers_define_the_same_methods). Qed.
Print Assumptions C15_serializers_define_the_same_methods.

Theorem C15_serializers_accept_the_same_methods :
  forall m, lookup_meth SER_METHODS m = None <-> vlookup_meth VSER_METHODS m = None.
Proof. exact (@VserSrc.serializers_accept_the_same_methods). Qed.
Print Assumptions C15_serializers_accept_the_same_methods.

Theorem C15_len_hints_side_by_side :
  (forall cf rv fmt32 fmt64 rec keyser raw_parse (h h' : option nat) (n n' : nat) (name : bytes),
     let STEP := vstep VSER_SOURCE cf rv fmt32 fmt64 rec keyser raw_parse in
     STEP (PCall (MSer m_seq) (with_len (AOptUsize h) no_args)) PStart = STEP (PCall (MSer m_seq) (with_len (AOptUsize h') no_args)) PStart /\
     STEP (PCall (MSer m_map) (with_len (AOptUsize h) no_args)) PStart = STEP (PCall (MSer m_map) (with_len (AOptUsize h') no_args)) PStart /\
     STEP (PCall (MSer m_tuple) (with_len (AUsize n) no_args)) PStart = STEP (PCall (MSer m_tuple) (with_len (AUsize n') no_args)) PStart /\
     STEP (PCall (MSer m_tuple_variant) (with_variant name (with_len (AUsize n) no_args))) PStart =
     STEP (PCall (MSer m_tuple_variant) (with_variant name (with_len (AUsize n') no_args))) PStart /\
     STEP (PCall (MSer m_struct_variant) (with_variant name (with_len (AUsize n) no_args))) PStart =
     STEP (PCall (MSer m_struct_variant) (with_variant name (with_len (AUsize n') no_args))) PStart) /\
  (forall ap rv fmt32 fmt64 F rec keyser (h h' : option nat) st,
     let RUN := run SER_SOURCE ap rv fmt32 fmt64 F rec keyser SER_FUEL in
     is_some0 h = is_some0 h' ->
     RUN (MSer m_seq) (with_len (AOptUsize h) no_args) (st, None) = RUN (MSer m_seq) (with_len (AOptUsize h') no_args) (st, None) /\
     RUN (MSer m_map) (with_len (AOptUsize h) no_args) (st, None) = RUN (MSer m_map) (with_len (AOptUsize h') no_args) (st, None)).
Proof. exact (@VserSrc.len_hints_side_by_side). Qed.
Print Assumptions C15_len_hints_side_by_side.

