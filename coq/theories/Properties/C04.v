(* Properties/C04.v — serialise then deserialise is the identity (model level, Values). Pinned statements only.
   PARTIAL: the typed half (schema-typed data through the typed deserializer) is checked on the implementation, not proved here;
   floats: reading back ryu's text as the same float is the named hypothesis ryu_reads_back_value (true under float_roundtrip by
   C07 and for short literals by C08; checked on every float the harness meets). *)
From SJ Require Import Base.Bytes Base.Utf8 Base.FloatB Model.Read Model.Value Model.De Model.Sval Model.Ser Model.ValueSer
  Spec.Syntax Spec.Denote Spec.Layout Proofs.SerValue Proofs.SerMain Proofs.SerFinal.

(* every well-formed Value (valid UTF-8 strings, finite floats, integers in range, distinct keys in the map's order) prints — compact —
   to a text that parses back to exactly that Value *)
Theorem C04_value : forall cf fmt32 fmt64 v, ryu_json fmt32 fmt64 -> ryu_reads_back_value cf fmt64 ->
  wf_value cf v = true ->
  exists bufs c, serialize cf fmt32 fmt64 Compact (sval_of_value v) = Ok bufs /\ concat bufs = render c /\
    ((limit_disabled cf = false -> (cdepth c <= 127)%nat) -> from_input (mkEnv RSlice TEof cf) (concat bufs) = Ok v).
Proof. exact C03_value_roundtrip_final. Qed.

(* the pretty printers emit the layout of the same syntax tree, which denotes the same Value *)
Theorem C04_value_pretty_same_tree : forall cf fmt32 fmt64 v, ryu_json fmt32 fmt64 -> ryu_reads_back_value cf fmt64 ->
  wf_value cf v = true ->
  exists bufs c,
    serialize cf fmt32 fmt64 Compact (sval_of_value v) = Ok bufs
    /\ concat bufs = render c /\ wfb c = true /\ nows c = true /\ denote cf c = Some v
    /\ (forall ind, exists bufsp, serialize cf fmt32 fmt64 (Pretty ind) (sval_of_value v) = Ok bufsp /\ concat bufsp = layout ind 0 c).
Proof. exact C03_value_render_final. Qed.

Print Assumptions C04_value.
Print Assumptions C04_value_pretty_same_tree.

(* ---- typed half (Proofs/TypedRoundtrip*.v): for every type program t of the universe (bool, integers, floats, char, String, &str, unit, Option,
   newtype, Vec, tuples, maps with str/int/bool/char keys, structs, enums with the four variant kinds) and every datum d of type t, the compact
   text the serialiser prints for d reads back, as type t, to d (C04_typed: floats under the per-leaf hypothesis that the printed text ALONE
   parses to the same float — the ryu hypothesis of C04_value; C04_typed_no_float: no hypothesis at all; _norm: what reads back when Some(x)
   prints as null; _io: through a reader) ---- *)
From SJ Require Import Model.Ty Model.DeTyped Model.SerTyped.
Close Scope N_scope. Close Scope Z_scope. Open Scope nat_scope.   (* the statements below are printed by Coq in the default scopes *)
From SJ Require Proofs.TypedRoundtripF32.
Theorem C04_typed :
  forall (cf : Read.cfg) (fmt32 fmt64 : BinNums.N ->
  list BinNums.N) (t : Ty.ty) (d : Ty.dval) (sv : Sval.sval) (bufs : list (list BinNums.N)), SerTyped.in_universe t = true ->
  SerTyped.has_type t d = true ->
  SerTyped.roundtrip_safe t d = true ->
  List.Forall (TypedRoundtripF32.float_text_alone cf fmt32 fmt64) (SerTyped.float_leaves t d) ->
  SerTyped.sval_of_dval t d = Some sv ->
  Ser.serialize cf fmt32 fmt64 Ser.Compact sv = Bytes.Ok bufs ->
  (Read.limit_disabled cf = false ->
  SerTyped.nest t d <= 127) ->
  exists d' : Ty.dval, DeTyped.from_input_typed {| Read.rk := Read.RSlice; Read.tm := Read.TEof; Read.cf := cf |} t (List.concat bufs) = DeTyped.TOk d' /\ TypedRk.unb d' = TypedRk.unb d.
Proof. exact (@TypedRoundtripF32.C04_typed_text). Qed.
Print Assumptions C04_typed.

Theorem C04_typed_norm :
  forall (cf : Read.cfg) (fmt32 fmt64 : BinNums.N ->
  list BinNums.N) (t : Ty.ty) (d : Ty.dval) (sv : Sval.sval) (bufs : list (list BinNums.N)), SerTyped.in_universe t = true ->
  SerTyped.has_type t d = true ->
  SerTyped.str_safe t d = true ->
  List.Forall (TypedRoundtripF32.float_text_alone cf fmt32 fmt64) (SerTyped.float_leaves t d) ->
  SerTyped.sval_of_dval t d = Some sv ->
  Ser.serialize cf fmt32 fmt64 Ser.Compact sv = Bytes.Ok bufs ->
  (Read.limit_disabled cf = false ->
  SerTyped.nest t d <= 127) ->
  exists d' : Ty.dval, DeTyped.from_input_typed {| Read.rk := Read.RSlice; Read.tm := Read.TEof; Read.cf := cf |} t (List.concat bufs) = DeTyped.TOk d' /\ TypedRk.unb d' = TypedRk.unb (SerTyped.norm t d).
Proof. exact (@TypedRoundtripF32.C04_typed_text_norm). Qed.
Print Assumptions C04_typed_norm.

Theorem C04_typed_io :
  forall (cf : Read.cfg) (fmt32 fmt64 : BinNums.N ->
  list BinNums.N) (t : Ty.ty) (d : Ty.dval) (sv : Sval.sval) (bufs : list (list BinNums.N)), SerTyped.in_universe t = true ->
  TypedRk.owned_ty t = true ->
  SerTyped.has_type t d = true ->
  SerTyped.roundtrip_safe t d = true ->
  List.Forall (TypedRoundtripF32.float_text_alone cf fmt32 fmt64) (SerTyped.float_leaves t d) ->
  SerTyped.sval_of_dval t d = Some sv ->
  Ser.serialize cf fmt32 fmt64 Ser.Compact sv = Bytes.Ok bufs ->
  (Read.limit_disabled cf = false ->
  SerTyped.nest t d <= 127) ->
  exists d' : Ty.dval, DeTyped.from_input_typed {| Read.rk := Read.RIo; Read.tm := Read.TEof; Read.cf := cf |} t (List.concat bufs) = DeTyped.TOk d' /\ TypedRk.unb d' = TypedRk.unb d.
Proof. exact (@TypedRoundtripF32.C04_typed_io). Qed.
Print Assumptions C04_typed_io.

From SJ Require Proofs.TypedRoundtripFloat.
Theorem C04_typed_no_float :
  forall (cf : Read.cfg) (fmt32 fmt64 : BinNums.N ->
  list BinNums.N) (t : Ty.ty) (d : Ty.dval) (sv : Sval.sval) (bufs : list (list BinNums.N)), SerTyped.in_universe t = true ->
  SerTyped.no_float t = true ->
  SerTyped.has_type t d = true ->
  SerTyped.roundtrip_safe t d = true ->
  SerTyped.sval_of_dval t d = Some sv ->
  Ser.serialize cf fmt32 fmt64 Ser.Compact sv = Bytes.Ok bufs ->
  (Read.limit_disabled cf = false ->
  SerTyped.nest t d <= 127) ->
  exists d' : Ty.dval, DeTyped.from_input_typed {| Read.rk := Read.RSlice; Read.tm := Read.TEof; Read.cf := cf |} t (List.concat bufs) = DeTyped.TOk d' /\ TypedRk.unb d' = TypedRk.unb d.
Proof. exact (@TypedRoundtripFloat.C04_typed_no_float). Qed.
Print Assumptions C04_typed_no_float.

From SJ Require Proofs.TypedRoundtripMain.
Theorem C04_typed_some_null :
  forall (cf : Read.cfg) (fmt32 fmt64 : BinNums.N ->
  list BinNums.N) (t : Ty.ty) (d : Ty.dval) (sv : Sval.sval) (bufs : list (list BinNums.N)), SerTyped.in_universe t = true ->
  SerTyped.has_type t d = true ->
  SerTyped.prints_null t d = true ->
  SerTyped.sval_of_dval (Ty.TOption t) (Ty.DSome d) = Some sv ->
  Ser.serialize cf fmt32 fmt64 Ser.Compact sv = Bytes.Ok bufs ->
  DeTyped.from_input_typed {| Read.rk := Read.RSlice; Read.tm := Read.TEof; Read.cf := cf |} (Ty.TOption t) (List.concat bufs) = DeTyped.TOk Ty.DNone.
Proof. exact (@TypedRoundtripMain.C04_typed_some_null). Qed.
Print Assumptions C04_typed_some_null.

Theorem C04_typed_total :
  forall (cf : Read.cfg) (fmt32 fmt64 : BinNums.N ->
  list BinNums.N) (t : Ty.ty) (d : Ty.dval), SerTyped.in_universe t = true ->
  SerTyped.has_type t d = true ->
  SerTyped.roundtrip_safe t d = true ->
  TypedRoundtripMain.floats_ok cf fmt32 fmt64 t d ->
  (Read.limit_disabled cf = false ->
  SerTyped.nest t d <= 127) ->
  exists (sv : Sval.sval) (bufs : list (list BinNums.N)) (d' : Ty.dval), SerTyped.sval_of_dval t d = Some sv /\ Ser.serialize cf fmt32 fmt64 Ser.Compact sv = Bytes.Ok bufs /\ DeTyped.from_input_typed {| Read.rk := Read.RSlice; Read.tm := Read.TEof; Read.cf := cf |} t (List.concat bufs) = DeTyped.TOk d' /\ TypedRk.unb d' = TypedRk.unb d.
Proof. exact (@TypedRoundtripMain.C04_typed_total). Qed.
Print Assumptions C04_typed_total.

