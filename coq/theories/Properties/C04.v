(* Properties/C04.v — serialise then deserialise is the identity (model level, Values). Pinned statements only.
   PARTIAL: the typed half (schema-typed data through the typed deserializer) is checked on the implementation, not proved here;
   floats: reading back ryu's text as the same float is the named hypothesis ryu_reads_back_value (true under float_roundtrip by
   C07 and for short literals by C08; checked on every float the harness meets). *)
From SJ Require Import Base.Bytes Base.Utf8 Base.FloatB Model.Read Model.Value Model.De Model.Sval Model.Ser Model.ValueSer
  Spec.Syntax Spec.Denote Spec.Layout Proofs.SerValue Proofs.SerMain Proofs.SerFinal.

(* every well-formed Value (valid UTF-8 strings, finite floats, integers in range, distinct keys in the map's order) prints — compact —
   to a text that parses back to exactly that Value *)
Theorem C04_value : forall cf fmt32 fmt64 v, ryu_json fmt32 fmt64 -> ryu_reads_back_value cf fmt64 ->
  wf_value cf v = true ->
  exists bufs c, serialize cf fmt32 fmt64 Compact (sval_of_value v) = Ok bufs /\ concat bufs = render c /\
    ((limit_disabled cf = false -> (cdepth c <= 127)%nat) -> from_input (mkEnv RSlice TEof cf) (concat bufs) = Ok v).
Proof. exact C03_value_roundtrip_final. Qed.

(* the pretty printers emit the layout of the same syntax tree, which denotes the same Value *)
Theorem C04_value_pretty_same_tree : forall cf fmt32 fmt64 v, ryu_json fmt32 fmt64 -> ryu_reads_back_value cf fmt64 ->
  wf_value cf v = true ->
  exists bufs c,
    serialize cf fmt32 fmt64 Compact (sval_of_value v) = Ok bufs
    /\ concat bufs = render c /\ wfb c = true /\ nows c = true /\ denote cf c = Some v
    /\ (forall ind, exists bufsp, serialize cf fmt32 fmt64 (Pretty ind) (sval_of_value v) = Ok bufsp /\ concat bufsp = layout ind 0 c).
Proof. exact C03_value_render_final. Qed.

Print Assumptions C04_value.
Print Assumptions C04_value_pretty_same_tree.
