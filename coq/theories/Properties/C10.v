(* Properties/C10.v — truncated input is always reported as an EOF error (model level; Value and ignored/raw content). Pinned statements. *)
From SJ Require Import Base.Bytes Base.FloatB Gen.Tables Model.Read Model.Str Model.Num Model.Value Model.De Model.Ignore.
From SJ Require Import Proofs.PrefixBase Proofs.Prefix Proofs.PrefixTotal.

(* eofish c := category c = CatEof \/ c = NumberOutOfRange.  [category] is generated from error.rs `classify` on every run.
   The NumberOutOfRange disjunct is the KNOWN FINDING F10: a number literal whose mantissa alone is out of range fails with
   `number out of range` at end of input although a negative exponent could follow (witness below). *)
Theorem C10_value : forall rk cf p t v, t <> [] ->
  from_input (mkEnv rk TEof cf) (p ++ t) = Ok v ->
  match from_input (mkEnv rk TEof cf) p with
  | Ok _ => True
  | Err c i => eofish c /\ i = length p
  | OutOfFuel | Panic => False
  end.
Proof. exact C10_value_full. Qed.

Theorem C10_ignored : forall rk cf p t v, t <> [] ->
  ignored_from_input (mkEnv rk TEof cf) (p ++ t) = Ok v ->
  match ignored_from_input (mkEnv rk TEof cf) p with
  | Ok _ => True
  | Err c i => eofish c /\ i = length p
  | OutOfFuel | Panic => False
  end.
Proof. exact C10_ignored_full. Qed.

(* the codes classified Eof are exactly the four EofWhileParsing* codes (generated mapping) *)
Theorem C10_eof_codes : forall c, category c = CatEof <->
  (c = EofWhileParsingList \/ c = EofWhileParsingObject \/ c = EofWhileParsingString \/ c = EofWhileParsingValue).
Proof. intro c; split; [destruct c; cbn; intro H; try discriminate H; auto | intros [H|[H|[H|H]]]; subst; reflexivity]. Qed.

(* the known exception is real (witness: 400 digits '1', continuation e-200), evaluated in the kernel *)
Theorem C10_known_F10_witness : exists p t v, t <> [] /\
  from_input (mkEnv RSlice TEof (mkCfg false false false false)) (p ++ t) = Ok v /\
  from_input (mkEnv RSlice TEof (mkCfg false false false false)) p = Err NumberOutOfRange (length p).
Proof. exact C10_number_range_exception. Qed.

Example C10_example : from_input (mkEnv RSlice TEof (mkCfg false false false false)) [123; 34; 97; 34; 58; 91; 49; 44]%N = Err EofWhileParsingValue 8.
Proof. vm_compute. reflexivity. Qed.

Print Assumptions C10_value.
Print Assumptions C10_ignored.
Print Assumptions C10_eof_codes.
Print Assumptions C10_known_F10_witness.

(* ---- streams (Proofs/StreamEof.v): a stream whose remaining text is a proper prefix of an accepted value yields that value early (numbers) or
   exactly ONE eofish error at the end of the input, byte_offset() at the start of the fragment, then None forever ---- *)
From SJ Require Import Model.Stream Spec.Syntax Spec.Denote.
From SJ Require Proofs.StreamEof.
Theorem C10_stream : forall cf rk c v ss w p t,
  (rk = RSlice \/ rk = RIo) ->
  wfb c = true -> denote cf c = Some v ->
  (limit_disabled cf = false -> (cdepth c < N.to_nat (depth (ss_st ss)))%nat) -> (depth (ss_st ss) <= 128)%N ->
  (is_io (mkEnv rk TEof cf) && ss_failed ss = false) ->
  rest (ss_st ss) = w ++ p -> ws_ok w = true -> p <> [] -> render c = p ++ t ->
  (exists v' ss', stream_next (mkEnv rk TEof cf) value_item ss = (Some (IVal v'), ss')
      /\ (v' = v \/ (rest (ss_st ss') = [] /\ ss_off ss' = (off (ss_st ss) + length w + length p)%nat)))
  \/ (exists c' i ss', stream_next (mkEnv rk TEof cf) value_item ss = (Some (IErr c' i), ss')
      /\ eofish c' /\ i = (off (ss_st ss) + length w + length p)%nat
      /\ ss_off ss' = (off (ss_st ss) + length w)%nat
      /\ forall n, Forall (fun o => fst o = None /\ snd o = (off (ss_st ss) + length w)%nat)
                          (stream_run n (mkEnv rk TEof cf) value_item ss')).
Proof. exact (@StreamEof.stream_truncated_render). Qed.
Print Assumptions C10_stream.

Theorem C10_stream_value : forall rk cf ss w p t v s',
  (is_io (mkEnv rk TEof cf) && ss_failed ss = false) ->
  rest (ss_st ss) = w ++ p -> ws_ok w = true ->
  (match p with b :: _ => ws_byte b = false | [] => False end) -> t <> [] ->
  value_item (mkEnv rk TEof cf) (mkSt (p ++ t) (off (ss_st ss) + length w)%nat true (depth (ss_st ss))) = Ok (v, s') ->
  (length (rest s') <= length t)%nat ->
  (exists v' ss', stream_next (mkEnv rk TEof cf) value_item ss = (Some (IVal v'), ss')
      /\ (v' = v \/ (rest (ss_st ss') = [] /\ ss_off ss' = (off (ss_st ss) + length w + length p)%nat)))
  \/ (exists c i ss', stream_next (mkEnv rk TEof cf) value_item ss = (Some (IErr c i), ss')
      /\ eofish c /\ i = (off (ss_st ss) + length w + length p)%nat
      /\ ss_off ss' = (off (ss_st ss) + length w)%nat
      /\ forall n, Forall (fun o => fst o = None /\ snd o = (off (ss_st ss) + length w)%nat)
                          (stream_run n (mkEnv rk TEof cf) value_item ss')).
Proof. exact (@StreamEof.stream_truncated_value). Qed.
Print Assumptions C10_stream_value.

Theorem C10_stream_ignored : forall rk cf ss w p t v s',
  (is_io (mkEnv rk TEof cf) && ss_failed ss = false) ->
  rest (ss_st ss) = w ++ p -> ws_ok w = true ->
  (match p with b :: _ => ws_byte b = false | [] => False end) -> t <> [] ->
  ignored_item (mkEnv rk TEof cf) (mkSt (p ++ t) (off (ss_st ss) + length w)%nat true (depth (ss_st ss))) = Ok (v, s') ->
  (length (rest s') <= length t)%nat ->
  (exists v' ss', stream_next (mkEnv rk TEof cf) ignored_item ss = (Some (IVal v'), ss')
      /\ (v' = v \/ (rest (ss_st ss') = [] /\ ss_off ss' = (off (ss_st ss) + length w + length p)%nat)))
  \/ (exists c i ss', stream_next (mkEnv rk TEof cf) ignored_item ss = (Some (IErr c i), ss')
      /\ eofish c /\ i = (off (ss_st ss) + length w + length p)%nat
      /\ ss_off ss' = (off (ss_st ss) + length w)%nat
      /\ forall n, Forall (fun o => fst o = None /\ snd o = (off (ss_st ss) + length w)%nat)
                          (stream_run n (mkEnv rk TEof cf) ignored_item ss')).
Proof. exact (@StreamEof.stream_truncated_ignored). Qed.
Print Assumptions C10_stream_ignored.

Theorem C10_stream_item : forall rk cf p t off pk d v s',
  value_item (mkEnv rk TEof cf) (mkSt (p ++ t) off pk d) = Ok (v, s') ->
  match value_item (mkEnv rk TEof cf) (mkSt p off pk d) with
  | Ok (v2, s2) => (v2 = v /\ s' = mkSt (rest s2 ++ t) (Read.off s2) (Read.pk s2) (depth s2))
                   \/ (rest s2 = [] /\ Read.pk s2 = false /\ Read.off s2 = (off + length p)%nat)
  | Err c i => eofish c /\ i = (off + length p)%nat
  | OutOfFuel | Panic => False
  end.
Proof. exact (@StreamEof.value_item_prefix_strong). Qed.
Print Assumptions C10_stream_item.


(* ---- typed targets (Proofs/TypedPrefix*.v): every type program, key type, reader kind and configuration ---- *)
From SJ Require Import Model.Ty Model.DeTyped.
From SJ Require Proofs.TypedPrefix Proofs.TypedPrefixTotal.
Theorem C10_typed : forall rk cf t p tl d, tl <> [] ->
  from_input_typed (mkEnv rk TEof cf) t (p ++ tl) = TOk d ->
  match from_input_typed (mkEnv rk TEof cf) t p with
  | TOk _ => True
  | TErr c i => eofish c /\ i = length p
  | TUnpos _ _ | TFuel | TPanic => False
  end.
Proof. exact (@TypedPrefixTotal.C10_typed_full). Qed.
Print Assumptions C10_typed.

Theorem C10_typed_data_error_dead : forall rk cf t p tl c i,
  from_input_typed (mkEnv rk TEof cf) t p = TErr c i -> ~ eofish c ->
  forall d, from_input_typed (mkEnv rk TEof cf) t (p ++ tl) <> TOk d.
Proof. exact (@TypedPrefix.C10_typed_data_error_dead). Qed.
Print Assumptions C10_typed_data_error_dead.

Theorem C10_typed_trailing_witness :
  from_input_typed (mkEnv RSlice TEof (mkCfg false false false false)) (TTuple [TInt U8]) [91; 49; 44]
  = TErr TrailingCharacters 3.
Proof. exact (@TypedPrefix.C10_typed_trailing_witness). Qed.
Print Assumptions C10_typed_trailing_witness.

