(* Properties/C10.v — truncated input is always reported as an EOF error (model level; Value and ignored/raw content). Pinned statements. *)
From SJ Require Import Base.Bytes Base.FloatB Gen.Tables Model.Read Model.Str Model.Num Model.Value Model.De Model.Ignore.
From SJ Require Import Proofs.PrefixBase Proofs.Prefix Proofs.PrefixTotal.

(* eofish c := category c = CatEof \/ c = NumberOutOfRange.  [category] is generated from error.rs `classify` on every run.
   The NumberOutOfRange disjunct is the KNOWN FINDING F10: a number literal whose mantissa alone is out of range fails with
   `number out of range` at end of input although a negative exponent could follow (witness below). *)
Theorem C10_value : forall rk cf p t v, t <> [] ->
  from_input (mkEnv rk TEof cf) (p ++ t) = Ok v ->
  match from_input (mkEnv rk TEof cf) p with
  | Ok _ => True
  | Err c i => eofish c /\ i = length p
  | OutOfFuel | Panic => False
  end.
Proof. exact C10_value_full. Qed.

Theorem C10_ignored : forall rk cf p t v, t <> [] ->
  ignored_from_input (mkEnv rk TEof cf) (p ++ t) = Ok v ->
  match ignored_from_input (mkEnv rk TEof cf) p with
  | Ok _ => True
  | Err c i => eofish c /\ i = length p
  | OutOfFuel | Panic => False
  end.
Proof. exact C10_ignored_full. Qed.

(* the codes classified Eof are exactly the four EofWhileParsing* codes (generated mapping) *)
Theorem C10_eof_codes : forall c, category c = CatEof <->
  (c = EofWhileParsingList \/ c = EofWhileParsingObject \/ c = EofWhileParsingString \/ c = EofWhileParsingValue).
Proof. intro c; split; [destruct c; cbn; intro H; try discriminate H; auto | intros [H|[H|[H|H]]]; subst; reflexivity]. Qed.

(* the known exception is real (witness: 400 digits '1', continuation e-200), evaluated in the kernel *)
Theorem C10_known_F10_witness : exists p t v, t <> [] /\
  from_input (mkEnv RSlice TEof (mkCfg false false false false)) (p ++ t) = Ok v /\
  from_input (mkEnv RSlice TEof (mkCfg false false false false)) p = Err NumberOutOfRange (length p).
Proof. exact C10_number_range_exception. Qed.

Example C10_example : from_input (mkEnv RSlice TEof (mkCfg false false false false)) [123; 34; 97; 34; 58; 91; 49; 44]%N = Err EofWhileParsingValue 8.
Proof. vm_compute. reflexivity. Qed.

Print Assumptions C10_value.
Print Assumptions C10_ignored.
Print Assumptions C10_eof_codes.
Print Assumptions C10_known_F10_witness.
