(* Properties/C19.v — RawValue captures exactly the source text of one value; the skip scanner accepts exactly the
   RFC 8259 grammar minus surrogate pairing, numeric range and depth (model level). Pinned statements only. *)
From SJ Require Import Base.Bytes Base.Utf8 Gen.Tables Model.Read Model.Str Model.Num Model.Value Model.De Model.Ignore Spec.Syntax.
From SJ Require Import Proofs.GrammarIgnore Proofs.StrRefine Proofs.RkIndep.

(* [wfb] (Spec/Syntax.v) is the RFC 8259 grammar without the string-text condition, the numeric range and the depth bound:
   exactly the three things the scanner does not check. *)
Theorem C19_scanner_lang : forall cf bs, Forall (fun b => (b < 256)%N) bs ->
  (ignored_from_input (mkEnv RSlice TEof cf) bs = Ok tt
   <-> exists w1 c w2, bs = w1 ++ render c ++ w2 /\ ws_ok w1 = true /\ ws_ok w2 = true /\ wfb c = true).
Proof. exact ignored_lang. Qed.

Theorem C19_scanner_sound : forall cf s0 s1,
  Forall (fun b => (b < 256)%N) (rest s0) ->
  ignore_value (mkEnv RSlice TEof cf) s0 = Ok s1 ->
  exists w c, rest s0 = w ++ render c ++ rest s1 /\ ws_ok w = true /\ wfb c = true
          /\ off s1 = (off s0 + length w + length (render c))%nat /\ depth s1 = depth s0.
Proof. exact ignore_value_sound. Qed.
Theorem C19_scanner_complete : forall cf w c rst off pk d,
  ws_ok w = true -> wfb c = true -> val_follow rst ->
  exists pk', ignore_value (mkEnv RSlice TEof cf) (mkSt (w ++ render c ++ rst) off pk d)
            = Ok (mkSt rst (off + length w + length (render c)) pk' d).
Proof. exact ignore_value_complete. Qed.

(* the captured span [a, b) is exactly the text of one value: nothing before or after it, no surrounding whitespace *)
Theorem C19_span : forall cf s0 a b s1,
  Forall (fun x => (x < 256)%N) (rest s0) ->
  raw_value (mkEnv RSlice TEof cf) s0 = Ok (a, b, s1) ->
  exists w c, rest s0 = w ++ render c ++ rest s1 /\ ws_ok w = true /\ wfb c = true
          /\ a = (off s0 + length w)%nat /\ b = (a + length (render c))%nat /\ off s1 = b.
Proof. exact raw_value_span. Qed.
Theorem C19_span_bytes : forall cf s0 a b s1,
  Forall (fun x => (x < 256)%N) (rest s0) ->
  raw_value (mkEnv RSlice TEof cf) s0 = Ok (a, b, s1) ->
  exists c, wfb c = true /\ firstn (b - a) (skipn (a - off s0) (rest s0)) = render c.
Proof. exact raw_value_bytes. Qed.
Theorem C19_span_complete : forall cf w c rst off pk d,
  ws_ok w = true -> wfb c = true -> val_follow rst ->
  exists s1, raw_value (mkEnv RSlice TEof cf) (mkSt (w ++ render c ++ rst) off pk d)
             = Ok ((off + length w)%nat, (off + length w + length (render c))%nat, s1) /\ rest s1 = rst.
Proof. exact raw_value_complete. Qed.

(* every input source captures the same span *)
Theorem C19_sources_agree : forall cf s, raw_value (mkEnv RIo TEof cf) s = raw_value (mkEnv RSlice TEof cf) s.
Proof. intros cf s. apply raw_value_rk; intros; apply ignore_str_io_slice. Qed.

Example C19_example :
  raw_value (mkEnv RSlice TEof (mkCfg false false false false)) (init_st [32; 91; 49; 44; 32; 34; 92; 117; 100; 56; 48; 48; 34; 93; 32; 120]%N)
  = Ok (1%nat, 14%nat, mkSt [32; 120]%N 14 false DEPTH0).
Proof. vm_compute. reflexivity. Qed.

Print Assumptions C19_scanner_lang.
Print Assumptions C19_span.
Print Assumptions C19_span_complete.
Print Assumptions C19_sources_agree.

(* ---- the RawValue clauses (Model/RawM.v: src/raw.rs and the raw paths of ser.rs / value/ser.rs; proofs Proofs/Raw*.v): from_string accepts exactly the
        scanner language and holds the trimmed text; a captured value is always one well-formed JSON text; it serialises back verbatim at top level and
        inside every container context, compact and pretty; to_value = the parsed Value; nested placements (array element, object value, struct field,
        tuple component, any position of any type program) capture exactly the source span. *)
From SJ Require Import Base.Utf8 Base.FloatB Spec.Denote Model.Sval Model.Ser Model.ValueSer Model.Ty Model.DeTyped Model.RawM Proofs.StrSource Proofs.Utf8Lemmas Proofs.TypedTotal.
From SJ Require Import Proofs.RawDe Proofs.RawSer Proofs.RawToValue Proofs.RawNested Proofs.RawAny.
From SJ Require Proofs.RawProps.
Notation EK k cf := (mkEnv k TEof cf) (only parsing).

Theorem C19_from_string : forall cf s r,
  utf8_valid s = true ->
  (from_string cf s = TOk r
   <-> exists w1 c w2, s = w1 ++ render c ++ w2 /\ ws_ok w1 = true /\ ws_ok w2 = true /\ wfb c = true /\ r = render c).
Proof. exact RawProps.C19_from_string. Qed.
Print Assumptions C19_from_string.

Theorem C19_from_string_total : forall cf s,
  (exists r, from_string cf s = TOk r) \/ (exists c i, from_string cf s = TErr c i).
Proof. exact RawProps.C19_from_string_total. Qed.
Print Assumptions C19_from_string_total.

Theorem C19_from_string_is_from_str : forall cf s r,
  Forall (fun b => (b < 256)%N) s ->
  (from_string cf s = TOk r <-> raw_from_input (EK RStr cf) s = TOk r).
Proof. exact RawProps.C19_from_string_is_from_str. Qed.
Print Assumptions C19_from_string_is_from_str.

Theorem C19_top_level : forall k cf bs r,
  Forall (fun b => (b < 256)%N) bs -> (k = RStr \/ utf8_valid bs = true) ->
  (raw_from_input (EK k cf) bs = TOk r
   <-> exists w1 c w2, bs = w1 ++ render c ++ w2 /\ ws_ok w1 = true /\ ws_ok w2 = true /\ wfb c = true /\ r = render c).
Proof. exact RawProps.C19_top_level. Qed.
Print Assumptions C19_top_level.

Theorem C19_top_level_exact : forall k cf bs r,
  Forall (fun b => (b < 256)%N) bs ->
  (raw_from_input (EK k cf) bs = TOk r
   <-> (exists w1 c w2, bs = w1 ++ render c ++ w2 /\ ws_ok w1 = true /\ ws_ok w2 = true /\ wfb c = true /\ r = render c)
       /\ (k = RStr \/ utf8_valid r = true)).
Proof. exact RawProps.C19_top_level_exact. Qed.
Print Assumptions C19_top_level_exact.

Theorem C19_always_valid_json : forall k cf s a b s1,
  Forall (fun x => (x < 256)%N) (rest s) ->
  raw_value (EK k cf) s = Ok (a, b, s1) ->
  exists c, wfb c = true /\ firstn (b - a) (skipn (a - off s) (rest s)) = render c.
Proof. exact RawProps.C19_always_valid_json. Qed.
Print Assumptions C19_always_valid_json.

Theorem C19_always_valid_json_typed : forall k cf s d s1,
  Forall (fun b => (b < 256)%N) (rest s) ->
  deserialize_raw (EK k cf) s = TOk (d, s1) ->
  exists w c, rest s = w ++ render c ++ rest s1 /\ ws_ok w = true /\ wfb c = true /\ d = DRaw (render c)
          /\ off s1 = (off s + length w + length (render c))%nat /\ depth s1 = depth s
          /\ (k <> RStr -> utf8_valid (render c) = true).
Proof. exact RawProps.C19_always_valid_json_typed. Qed.
Print Assumptions C19_always_valid_json_typed.

Theorem C19_verbatim : forall cf fmt32 fmt64 F json,
  rserialize cf fmt32 fmt64 F (RRaw json) = Ok [json] /\ rto_vec cf fmt32 fmt64 F (RRaw json) = Ok json.
Proof. exact RawProps.C19_verbatim. Qed.
Print Assumptions C19_verbatim.

Theorem C19_verbatim_in_context : forall cf fmt32 fmt64 F (x : rctx) (st : fstate),
  (exists A B fin, forall json, rser cf fmt32 fmt64 F (plug x (RRaw json)) st = (A ++ [json] ++ B, fin))
  \/ (exists A e, not_ok e /\ forall json, rser cf fmt32 fmt64 F (plug x (RRaw json)) st = (A, e)).
Proof. exact RawProps.C19_verbatim_in_context. Qed.
Print Assumptions C19_verbatim_in_context.

Theorem C19_verbatim_array_element : forall cf fmt32 fmt64 F json rest cs st,
  rser_elems F (rser cf fmt32 fmt64 F) (RRaw json :: rest) cs st =
  (do* st1 := Ser.lift (begin_array_value F (is_first cs) st) in
   do* _ := twrite json in
   do* st3 := Ser.lift (end_array_value F st1) in
   rser_elems F (rser cf fmt32 fmt64 F) rest Rest st3).
Proof. exact RawProps.C19_verbatim_array_element. Qed.
Print Assumptions C19_verbatim_array_element.

Theorem C19_roundtrip : forall k cf fmt32 fmt64 F s d s1,
  Forall (fun b => (b < 256)%N) (rest s) ->
  deserialize_raw (EK k cf) s = TOk (d, s1) ->
  exists w, ws_ok w = true /\ rest s = w ++ raw_of d ++ rest s1
         /\ d = DRaw (raw_of d)
         /\ rto_vec cf fmt32 fmt64 F (RRaw (raw_of d)) = Ok (raw_of d).
Proof. exact RawProps.C19_roundtrip. Qed.
Print Assumptions C19_roundtrip.

Theorem C19_roundtrip_top : forall k cf fmt32 fmt64 F bs r,
  Forall (fun b => (b < 256)%N) bs -> (k = RStr \/ utf8_valid bs = true) ->
  raw_from_input (EK k cf) bs = TOk r ->
  rto_vec cf fmt32 fmt64 F (RRaw r) = Ok r
  /\ exists w1 w2, bs = w1 ++ r ++ w2 /\ ws_ok w1 = true /\ ws_ok w2 = true.
Proof. exact RawProps.C19_roundtrip_top. Qed.
Print Assumptions C19_roundtrip_top.

Theorem C19_to_value : forall cf fmt32 fmt64 json,
  rto_value cf fmt32 fmt64 (RRaw json) = from_input (EK RStr cf) json.
Proof. exact RawProps.C19_to_value. Qed.
Print Assumptions C19_to_value.

Theorem C19_to_value_captured : forall k cf fmt32 fmt64 bs r,
  utf8_valid bs = true ->
  raw_from_input (EK k cf) bs = TOk r ->
  forall v, rto_value cf fmt32 fmt64 (RRaw r) = Ok v <-> from_input (EK RSlice cf) bs = Ok v.
Proof. exact RawProps.C19_to_value_captured. Qed.
Print Assumptions C19_to_value_captured.

Theorem C19_to_value_denote : forall cf fmt32 fmt64 c v,
  wfb c = true -> utf8_valid (render c) = true -> denote cf c = Some v ->
  (limit_disabled cf = false -> (cdepth c <= 127)%nat) ->
  rto_value cf fmt32 fmt64 (RRaw (render c)) = Ok v.
Proof. exact RawProps.C19_to_value_denote. Qed.
Print Assumptions C19_to_value_denote.

Theorem C19_nested_seq : forall k cf w1 w0 l w2,
  ws_ok w1 = true -> ws_ok w2 = true -> wfb (arr_of w0 l) = true -> input_ok k (w1 ++ render (arr_of w0 l) ++ w2) ->
  from_input_typed (EK k cf) (TSeq TRaw) (w1 ++ render (arr_of w0 l) ++ w2) = TOk (DSeq (map DRaw (espans l))).
Proof. exact RawProps.C19_nested_seq. Qed.
Print Assumptions C19_nested_seq.

Theorem C19_nested_tuple : forall k cf w1 w0 l w2,
  ws_ok w1 = true -> ws_ok w2 = true -> wfb (arr_of w0 l) = true -> input_ok k (w1 ++ render (arr_of w0 l) ++ w2) ->
  from_input_typed (EK k cf) (TTuple (repeat TRaw (length l))) (w1 ++ render (arr_of w0 l) ++ w2) = TOk (DSeq (map DRaw (espans l))).
Proof. exact RawProps.C19_nested_tuple. Qed.
Print Assumptions C19_nested_tuple.

Theorem C19_nested_map : forall k cf w1 w0 l w2 keys,
  ws_ok w1 = true -> ws_ok w2 = true -> wfb (obj_of w0 l) = true -> Forall2 key_is l keys ->
  input_ok k (w1 ++ render (obj_of w0 l) ++ w2) ->
  exists es, from_input_typed (EK k cf) (TMap KStr TRaw) (w1 ++ render (obj_of w0 l) ++ w2) = TOk (DMap es)
          /\ Forall2 entry_is es (combine keys (mspans l)).
Proof. exact RawProps.C19_nested_map. Qed.
Print Assumptions C19_nested_map.

Theorem C19_nested_struct : forall k cf w1 w0 l w2 names,
  ws_ok w1 = true -> ws_ok w2 = true -> wfb (obj_of w0 l) = true -> Forall2 key_is l names -> NoDup names ->
  input_ok k (w1 ++ render (obj_of w0 l) ++ w2) ->
  from_input_typed (EK k cf) (TStruct (mkfields names)) (w1 ++ render (obj_of w0 l) ++ w2) = TOk (DStruct (map DRaw (mspans l))).
Proof. exact RawProps.C19_nested_struct. Qed.
Print Assumptions C19_nested_struct.

Theorem C19_nested_struct_positional : forall k cf w1 w0 l w2 names,
  ws_ok w1 = true -> ws_ok w2 = true -> wfb (arr_of w0 l) = true -> length names = length l ->
  input_ok k (w1 ++ render (arr_of w0 l) ++ w2) ->
  from_input_typed (EK k cf) (TStruct (mkfields names)) (w1 ++ render (arr_of w0 l) ++ w2) = TOk (DStruct (map DRaw (espans l))).
Proof. exact RawProps.C19_nested_struct_positional. Qed.
Print Assumptions C19_nested_struct_positional.

Theorem C19_any_position : forall k cf t bs d,
  Forall (fun b => (b < 256)%N) bs ->
  from_input_typed (EK k cf) t bs = TOk d -> raws_in bs d.
Proof. exact RawProps.C19_any_position. Qed.
Print Assumptions C19_any_position.

(* ---- eleven small cursor functions of de.rs TRANSLATED ON THIS RUN (tools/translate_cursor.py -> Gen/CursorTables.v; AST and interpreter Model/ScanAst.v): the number
        skipper (ignore_integer / _decimal / _exponent), parse_ident, parse_whitespace, parse_object_colon, end_seq, end_map, peek_end_of_value, has_next_element,
        has_next_key — the hand-written models equal the interpreted source for every state and enough fuel ---- *)
From Coq Require Import String.
From SJ Require Import Base.Bytes Base.Utf8 Gen.Tables Model.Read Model.Num Model.De Model.Stream Model.ScanAst Gen.CursorTables Proofs.ScanSrc.
Require Import Lia Btauto.
From SJ Require Import Proofs.CursorSrc.
Theorem C19_skipper_is_source : forall (E : env) (s : st) (buf : bytes) (fuel : nat),
  ((length (rest s) + 11 <= fuel)%nat ->
     run_scan fuel E CURSOR_TABLE "ignore_integer" None s buf = liftu buf (Num.ignore_integer E s)) /\
  ((length (rest s) + 8 <= fuel)%nat ->
     run_scan fuel E CURSOR_TABLE "ignore_decimal" None s buf = liftu buf (Num.ignore_decimal E s)) /\
  ((length (rest s) + 5 <= fuel)%nat ->
     run_scan fuel E CURSOR_TABLE "ignore_exponent" None s buf = liftu buf (Num.ignore_exponent E s)) /\
  (forall ident : bytes, (4 <= fuel)%nat ->
     run_scan_v fuel E CURSOR_TABLE "parse_ident" (Some (VBytes ident)) s buf = liftu buf (Read.parse_ident E ident s)) /\
  ((length (rest s) + 5 <= fuel)%nat ->
     run_scan fuel E CURSOR_TABLE "parse_whitespace" None s buf =
     let* (o, s') := Read.parse_whitespace E s in Ok (ROpt o, buf, s')) /\
  ((length (rest s) + 8 <= fuel)%nat ->
     run_scan fuel E CURSOR_TABLE "parse_object_colon" None s buf = liftu buf (De.parse_object_colon E s)) /\
  ((length (rest s) + 10 <= fuel)%nat ->
     run_scan fuel E CURSOR_TABLE "end_seq" None s buf = liftu buf (De.end_seq E s)) /\
  ((length (rest s) + 8 <= fuel)%nat ->
     run_scan fuel E CURSOR_TABLE "end_map" None s buf = liftu buf (De.end_map E s)) /\
  ((3 <= fuel)%nat ->
     run_scan fuel E CURSOR_TABLE "peek_end_of_value" None s buf = liftu buf (Stream.peek_end_of_value E s)) /\
  (forall first : bool, (length (rest s) + 12 <= fuel)%nat ->
     run_scan_v fuel E CURSOR_TABLE "has_next_element" (Some (VBool first)) s buf = lift_has E buf s (De.has_next_element E first s)) /\
  (forall first : bool, (length (rest s) + 12 <= fuel)%nat ->
     run_scan_v fuel E CURSOR_TABLE "has_next_key" (Some (VBool first)) s buf = lift_has E buf s (De.has_next_key E first s)) /\
  (first_branch_clears (fbody CUR_has_next_element) = true /\ first_branch_clears (fbody CUR_has_next_key) = true).
Proof. exact (@CursorSrc.cursor_model_is_translated_source). Qed.
Print Assumptions C19_skipper_is_source.


(* ---- Deserializer::ignore_value — the ITERATIVE skip scanner (scratch as a stack of open brackets, the enclosing local, labelled loops) — TRANSLATED ON THIS RUN
        (tools/translate_ignore.py -> Gen/IgnoreTables.v); the model of Model/Ignore.v equals the interpreted source for every environment and cursor ---- *)
From Coq Require Import String.
From SJ Require Import Base.Bytes Base.Utf8 Gen.Tables Model.Read Model.Str Model.Num Model.De Model.Ignore Model.ScanAst
  Gen.CursorTables Gen.IgnoreTables Proofs.ScanSrc Proofs.CursorSrc Proofs.Total.
Require Import Lia.
From SJ Require Import Proofs.IgnoreSrc.
Theorem C19_ignore_value_is_source : forall (E : env) (s : st) (buf : bytes) (fuel : nat),
  (ignore_fuel s + length (rest s) + 23 <= fuel)%nat ->
  run_scan fuel E IGNORE_TABLE "ignore_value" None s buf = let* s' := Ignore.ignore_value E s in Ok (RUnit, [], s').
Proof. exact (@IgnoreSrc.ignore_value_is_translated_source). Qed.
Print Assumptions C19_ignore_value_is_source.

From SJ Require Import Base.Bytes Base.Utf8 Base.FloatB Gen.Tables Model.Read Model.Str Model.Num Model.NumF32 Model.Value Model.De
  Model.Ignore Model.Ty Model.DeTyped Model.Sval Model.Ser Model.RawM Model.RawDe Spec.Syntax Spec.Denote.
From SJ Require Import Proofs.GrammarStr Proofs.GrammarNum Proofs.TypedTotal Proofs.RawDe Proofs.RawAny
  Proofs.GrammarValueBase Proofs.RawDeBase Proofs.RawDeValue Proofs.RawDeF32 Proofs.RawDeLeaves.
From SJ Require Proofs.GrammarValueSound Proofs.GrammarValueComplete Proofs.GrammarFinal Proofs.StrSource Proofs.RawToValue
  Proofs.SerBase Proofs.SerMain Proofs.Utf8Lemmas Spec.Layout.
Require Import Lia ZifyBool ZifyNat ZifyN.
From SJ Require Import Proofs.RawDeProps.
Theorem C19_de_typed_consumes : forall cf f t s d s1 c x,
  de_typed f (mkEnv RStr TEof cf) t s = TOk (d, s1) -> skipws (rest s) = render c ++ x -> wfb c = true -> val_follow x -> Stops t c x (rest s1).
Proof. exact (@RawDeProps.de_typed_consumes). Qed.
Print Assumptions C19_de_typed_consumes.

Theorem C19_raw_de_vs_from_str : forall cf t c, wfb c = true ->
  raw_deserialize cf t (render c) = raw_from_str cf t (render c)
  \/ (head128 t = true /\ ~ int_only c /\
      exists d i, raw_deserialize cf t (render c) = TOk d /\ raw_from_str cf t (render c) = TErr TrailingCharacters i).
Proof. exact (@RawDeProps.raw_de_vs_from_str). Qed.
Print Assumptions C19_raw_de_vs_from_str.

Theorem C19_raw_de_is_from_str_partial : forall cf t c, wfb c = true -> head128 t = false \/ int_only c ->
  raw_deserialize cf t (render c) = raw_from_str cf t (render c).
Proof. exact (@RawDeProps.raw_de_is_from_str_partial). Qed.
Print Assumptions C19_raw_de_is_from_str_partial.

Theorem C19_raw_de_value_is_reparse : forall cf j d, captured j -> utf8_valid j = true ->
  (raw_deserialize cf TValue j = TOk d <-> exists v, d = DValue (Driver.show_value v) /\ Denotes (raw_cfg cf) j v).
Proof. exact (@RawDeProps.raw_de_value_is_reparse). Qed.
Print Assumptions C19_raw_de_value_is_reparse.

Theorem C19_raw_into_deserializer_is_from_str : forall cf t c, wfb c = true -> head128 t = false \/ int_only c ->
  raw_deserialize_into cf t (render c) = raw_from_str cf t (render c).
Proof. exact (@RawDeProps.raw_into_deserializer_is_from_str). Qed.
Print Assumptions C19_raw_into_deserializer_is_from_str.

Theorem C19_to_raw_value_reparses : forall cf fmt32 fmt64 v j,
  Layout.ryu_json fmt32 fmt64 -> Layout.wfs v = true ->
  RawM.to_raw_value cf fmt32 fmt64 v = Ok j ->
  from_string cf j = TOk j /\ captured j /\ utf8_valid j = true.
Proof. exact (@RawDeProps.to_raw_value_reparses). Qed.
Print Assumptions C19_to_raw_value_reparses.

Theorem C19_to_raw_value_then_deserialize : forall cf fmt32 fmt64 v j t,
  Layout.ryu_json fmt32 fmt64 -> Layout.wfs v = true -> RawM.to_raw_value cf fmt32 fmt64 v = Ok j -> head128 t = false ->
  raw_deserialize cf t j = raw_from_str cf t j.
Proof. exact (@RawDeProps.to_raw_value_then_deserialize). Qed.
Print Assumptions C19_to_raw_value_then_deserialize.


Example C19_raw_de_128_differs :
  raw_deserialize RawDeProps.cfg0 (TInt Ty.I128) [49; 46; 53] = TOk (DInt 1)
  /\ raw_from_str RawDeProps.cfg0 (TInt Ty.I128) [49; 46; 53] = TErr TrailingCharacters 2
  /\ from_string RawDeProps.cfg0 [49; 46; 53] = TOk [49; 46; 53].
Proof. exact RawDeProps.raw_de_128_differs. Qed.
