(* Properties/C19.v — RawValue captures exactly the source text of one value; the skip scanner accepts exactly the
   RFC 8259 grammar minus surrogate pairing, numeric range and depth (model level). Pinned statements only. *)
From SJ Require Import Base.Bytes Base.Utf8 Gen.Tables Model.Read Model.Str Model.Num Model.Value Model.De Model.Ignore Spec.Syntax.
From SJ Require Import Proofs.GrammarIgnore Proofs.StrRefine Proofs.RkIndep.

(* [wfb] (Spec/Syntax.v) is the RFC 8259 grammar without the string-text condition, the numeric range and the depth bound:
   exactly the three things the scanner does not check. *)
Theorem C19_scanner_lang : forall cf bs, Forall (fun b => (b < 256)%N) bs ->
  (ignored_from_input (mkEnv RSlice TEof cf) bs = Ok tt
   <-> exists w1 c w2, bs = w1 ++ render c ++ w2 /\ ws_ok w1 = true /\ ws_ok w2 = true /\ wfb c = true).
Proof. exact ignored_lang. Qed.

Theorem C19_scanner_sound : forall cf s0 s1,
  Forall (fun b => (b < 256)%N) (rest s0) ->
  ignore_value (mkEnv RSlice TEof cf) s0 = Ok s1 ->
  exists w c, rest s0 = w ++ render c ++ rest s1 /\ ws_ok w = true /\ wfb c = true
          /\ off s1 = (off s0 + length w + length (render c))%nat /\ depth s1 = depth s0.
Proof. exact ignore_value_sound. Qed.
Theorem C19_scanner_complete : forall cf w c rst off pk d,
  ws_ok w = true -> wfb c = true -> val_follow rst ->
  exists pk', ignore_value (mkEnv RSlice TEof cf) (mkSt (w ++ render c ++ rst) off pk d)
            = Ok (mkSt rst (off + length w + length (render c)) pk' d).
Proof. exact ignore_value_complete. Qed.

(* the captured span [a, b) is exactly the text of one value: nothing before or after it, no surrounding whitespace *)
Theorem C19_span : forall cf s0 a b s1,
  Forall (fun x => (x < 256)%N) (rest s0) ->
  raw_value (mkEnv RSlice TEof cf) s0 = Ok (a, b, s1) ->
  exists w c, rest s0 = w ++ render c ++ rest s1 /\ ws_ok w = true /\ wfb c = true
          /\ a = (off s0 + length w)%nat /\ b = (a + length (render c))%nat /\ off s1 = b.
Proof. exact raw_value_span. Qed.
Theorem C19_span_bytes : forall cf s0 a b s1,
  Forall (fun x => (x < 256)%N) (rest s0) ->
  raw_value (mkEnv RSlice TEof cf) s0 = Ok (a, b, s1) ->
  exists c, wfb c = true /\ firstn (b - a) (skipn (a - off s0) (rest s0)) = render c.
Proof. exact raw_value_bytes. Qed.
Theorem C19_span_complete : forall cf w c rst off pk d,
  ws_ok w = true -> wfb c = true -> val_follow rst ->
  exists s1, raw_value (mkEnv RSlice TEof cf) (mkSt (w ++ render c ++ rst) off pk d)
             = Ok ((off + length w)%nat, (off + length w + length (render c))%nat, s1) /\ rest s1 = rst.
Proof. exact raw_value_complete. Qed.

(* every input source captures the same span *)
Theorem C19_sources_agree : forall cf s, raw_value (mkEnv RIo TEof cf) s = raw_value (mkEnv RSlice TEof cf) s.
Proof. intros cf s. apply raw_value_rk; intros; apply ignore_str_io_slice. Qed.

Example C19_example :
  raw_value (mkEnv RSlice TEof (mkCfg false false false false)) (init_st [32; 91; 49; 44; 32; 34; 92; 117; 100; 56; 48; 48; 34; 93; 32; 120]%N)
  = Ok (1%nat, 14%nat, mkSt [32; 120]%N 14 false DEPTH0).
Proof. vm_compute. reflexivity. Qed.

Print Assumptions C19_scanner_lang.
Print Assumptions C19_span.
Print Assumptions C19_span_complete.
Print Assumptions C19_sources_agree.
