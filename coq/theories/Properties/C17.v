From SJ Require Import Base.Bytes Base.FloatB Model.Value Spec.Dict Model.MapM Proofs.MapMBase Proofs.MapMStep Proofs.MapMEq.
From Coq Require Import Sorting.Permutation Sorting.Sorted.
From Flocq Require Import Core BinarySingleNaN.

Theorem C17_refines : forall po ops,
  dict_eq (abs (fst (run po m_init ops))) (fst (ref_run po [] ops))
  /\ m_len (fst (run po m_init ops)) = dict_size (fst (ref_run po [] ops))
  /\ Permutation (m_iter (fst (run po m_init ops))) (fst (ref_run po [] ops))
  /\ Forall2 obs_agree (snd (run po m_init ops)) (snd (ref_run po [] ops)).
Proof. exact refines. Qed.
Print Assumptions C17_refines.

Theorem C17_no_dup : forall po ops, NoDup (m_keys (fst (run po m_init ops))).
Proof. exact no_dup. Qed.
Print Assumptions C17_no_dup.

Theorem C17_order_sorted : forall po ops, po = false -> ascending (m_keys (fst (run po m_init ops))).
Proof. exact order_sorted. Qed.
Print Assumptions C17_order_sorted.

Theorem C17_order_insertion : forall ops, m_keys (fst (run true m_init ops)) = ord_run [] [] ops.
Proof. exact order_insertion. Qed.
Print Assumptions C17_order_insertion.

Theorem C17_order_insertion_entries : forall ops,
  m_iter (fst (run true m_init ops))
  = map (fun k => (k, match dict_get k (fst (ref_run true [] ops)) with Some v => v | None => VNull end)) (ord_run [] [] ops).
Proof. exact order_insertion_entries. Qed.
Print Assumptions C17_order_insertion_entries.

Theorem C17_eq_refl : forall po v, wfv po v -> veq po v v = true.
Proof. exact veq_refl. Qed.
Print Assumptions C17_eq_refl.

Theorem C17_eq_sym : forall po a b, wfv po a -> wfv po b -> veq po a b = veq po b a.
Proof. exact veq_sym. Qed.
Print Assumptions C17_eq_sym.

Theorem C17_eq_trans : forall po a b c, wfv po a -> wfv po b -> wfv po c ->
  veq po a b = true -> veq po b c = true -> veq po a c = true.
Proof. exact veq_trans_true. Qed.
Print Assumptions C17_eq_trans.

Theorem C17_eq_perm : forall a b, wfv true a -> wfv true b -> vperm a b -> veq true a b = true.
Proof. exact vperm_veq. Qed.
Print Assumptions C17_eq_perm.

Theorem C17_eq_order_free : forall a a' b, wfv true a -> wfv true a' -> wfv true b -> vperm a a' ->
  veq true a b = veq true a' b /\ veq true b a = veq true b a'.
Proof. exact eq_order_free. Qed.
Print Assumptions C17_eq_order_free.

Theorem C17_eq_permuted_entries : forall m m', wfv true (VObj m) -> Permutation m m' -> veq true (VObj m) (VObj m') = true.
Proof. exact permuted_entries_equal. Qed.
Print Assumptions C17_eq_permuted_entries.

Theorem C17_hash : forall po a b, wfv po a -> wfv po b -> veq po a b = true -> hash_feed po a = hash_feed po b.
Proof. exact veq_hash. Qed.
Print Assumptions C17_hash.

Theorem C17_sort_all : forall po v, wfv po v ->
  all_sorted (sort_all_objects po v) /\ veq po (sort_all_objects po v) v = true.
Proof. exact sort_all_objects_spec. Qed.
Print Assumptions C17_sort_all.

Theorem C17_sort_all_perm : forall v, vperm v (sort_all v).
Proof. exact sort_all_vperm. Qed.
Print Assumptions C17_sort_all_perm.

(* the hypotheses are satisfiable and the statements say something on concrete data *)
Example C17_ex_history :
  let ops := [Insert [98] (VNum (NPos 1)); Insert [97] (VNum (NPos 2)); Insert [97; 98] VNull; Remove [98]; Iter] in
  fst (run true m_init ops) = [([97; 98], VNull); ([97], VNum (NPos 2))]
  /\ fst (run false m_init ops) = [([97], VNum (NPos 2)); ([97; 98], VNull)]
  /\ ord_run [] [] ops = [[97; 98]; [97]].
Proof. vm_compute. auto. Qed.

Example C17_ex_zero :
  let a := VObj [([97], VNum (NFloat (B754_zero false))); ([98], VBool true)] in
  let b := VObj [([98], VBool true); ([97], VNum (NFloat (B754_zero true)))] in
  wfv true a /\ wfv true b /\ vperm a (VObj [([98], VBool true); ([97], VNum (NFloat (B754_zero false)))])
  /\ veq true a b = true /\ hash_feed true a = hash_feed true b
  /\ veq true (VNum (NPos 1)) (VNum (NFloat (b64_of_Z 1))) = false.
Proof.
  cbn [wfv keys_ok map fst]. repeat split; try reflexivity.
  - repeat constructor; cbn; intuition discriminate.
  - repeat constructor; cbn; intuition discriminate.
  - exists [([97], VNum (NFloat (B754_zero false))); ([98], VBool true)]. split; [apply perm_swap|cbn; auto].
Qed.

Example C17_ex_sort :
  sort_all_objects true (VObj [([98], VObj [([122], VNull); ([97], VNull)]); ([97], VArr [])])
  = VObj [([97], VArr []); ([98], VObj [([97], VNull); ([122], VNull)])].
Proof. vm_compute. reflexivity. Qed.

(* ---- the Map wrapper of src/map.rs TRANSLATED ON THIS RUN (tools/translate_map.py -> Gen/MapTables.v: for each of 60 methods and both builds the backing call it
        makes — remove = swap_remove under preserve_order, append, sort_keys, the sorted Hash ...): one step of the model IS the table's meaning, for every operation ---- *)
From SJ Require Import Base.Bytes Base.FloatB Model.Value Spec.Dict Model.MapM Model.MapAst Gen.MapTables Proofs.MapMBase Proofs.MapMEq.
From SJ Require Import Proofs.MapSrc.
Theorem C17_map_wrapper_is_source : forall po m o, table_step MAP_TABLE po m o = Some (step po m o).
Proof. exact (@MapSrc.map_model_is_translated_source). Qed.
Print Assumptions C17_map_wrapper_is_source.

Theorem C17_map_histories_are_source : forall po ops m, table_run MAP_TABLE po m ops = Some (run po m ops).
Proof. exact (@MapSrc.map_run_is_translated_source). Qed.
Print Assumptions C17_map_histories_are_source.

Theorem C17_hash_is_source : forall po m,
  option_map (cons (HIsize 5)) (hash_meaning (call MAP_TABLE po T_hash) (hash_feed po) m) = Some (hash_feed po (VObj m)).
Proof. exact (@MapSrc.hash_obj_is_source). Qed.
Print Assumptions C17_hash_is_source.

Theorem C17_eq_is_source : forall po ma mb,
  eq_meaning (call MAP_TABLE po T_eq) (veq po) ma mb = Some (veq po (VObj ma) (VObj mb)).
Proof. exact (@MapSrc.veq_obj_is_source). Qed.
Print Assumptions C17_eq_is_source.

Theorem C17_builds_agree_elsewhere : forall mth,
  In mth cfg_dependent <-> forget_store (raw_call MAP_TABLE false mth) <> forget_store (raw_call MAP_TABLE true mth).
Proof. exact (@MapSrc.builds_agree_elsewhere). Qed.
Print Assumptions C17_builds_agree_elsewhere.

