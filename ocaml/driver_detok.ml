(* driver_detok.ml — reads case lines, calls the extracted [Sjmodel_detok.dispatch_detok], prints one answer per line.
   All protocol logic is in Coq (Extract/Driver_detok.v); this file only converts characters <-> N. *)
open Sjmodel_detok

let rec pos_of_int (n : int) : positive =
  if n = 1 then XH
  else if n land 1 = 0 then XO (pos_of_int (n lsr 1))
  else XI (pos_of_int (n lsr 1))

let n_of_int (n : int) : n = if n = 0 then N0 else Npos (pos_of_int n)

let rec int_of_pos (p : positive) : int =
  match p with XH -> 1 | XO q -> 2 * int_of_pos q | XI q -> 2 * int_of_pos q + 1

let int_of_n (x : n) : int = match x with N0 -> 0 | Npos p -> int_of_pos p

let bytes_tbl = Array.init 256 n_of_int

let field_of_string (s : string) : n list =
  let r = ref [] in
  for i = String.length s - 1 downto 0 do r := bytes_tbl.(Char.code s.[i]) :: !r done;
  !r

let () =
  let ic = if Array.length Sys.argv > 1 then open_in Sys.argv.(1) else stdin in
  let buf = Buffer.create 4096 in
  (try
    while true do
      let line = input_line ic in
      let fields = List.filter (fun s -> s <> "") (String.split_on_char ' ' line) in
      let out = dispatch_detok (List.map field_of_string fields) in
      Buffer.clear buf;
      List.iter (fun b -> Buffer.add_char buf (Char.chr (int_of_n b))) out;
      print_string (Buffer.contents buf); print_char '\n'
    done
  with End_of_file -> ());
  flush stdout
