import sys, time, collections
sys.path.insert(0,'/verif/tools')
import engine, checks
import checks.str5 as m
engine.harness_bin = lambda cfg, name='sjh': '/root/scratch/mut/target/release/' + name
ctx = checks.Ctx('C05', 'quick', 20260929, ['def'], True)
t=time.time()
m.run_c05(ctx)
c = collections.Counter(v['what'] for v in ctx.violations)
print(sys.argv[1], 'violations', len(ctx.violations), dict(c.most_common(8)), 'disagreements', len(ctx.disagreements), 'time %.0f' % (time.time()-t))
if ctx.violations:
    v = ctx.violations[0]; print('  first:', {k: (str(x)[:100]) for k, x in v.items()})
